"""C18 — visitors route every node to the handler named after its rule; tree equality is structural.

Tie: (a) for all bundled rule names and random names over ALPHA/DIGIT/'-' in random case, a visitor
class generated with one handler per (normalised) name is asked to visit a node of that name (real
NodeVisitor) and the handler actually invoked is compared with the model's `visit`; names without a
handler and literal leaves included.  (b) random tree pairs and single-field mutants: `==` on the
real Node / LiteralNode objects vs the model's `treeEq` (= structural equality by theorem)."""
from __future__ import annotations

import random
import string

import common_check as cc
import lib


def norm(name):  # what the README documents; used only to *name* the handlers of the generated class
    return name.replace("-", "_").lower()


def tree_prefix(P, n):
    if isinstance(n, P.LiteralNode):
        v = n.value
        return f"L {n.offset} {n.length} {len(v)}" + "".join(f" {ord(c)}" for c in v)
    return f"N {n.name} {len(n.children)}" + "".join(" " + tree_prefix(P, c) for c in n.children)


def rand_tree(P, rng, depth=3):
    if depth <= 0 or rng.random() < 0.35:
        txt = "".join(rng.choice("abAB") for _ in range(rng.randint(0, 2)))
        return P.LiteralNode(txt, rng.randint(0, 3), rng.choice([len(txt), len(txt), rng.randint(0, 3)]))
    return P.Node(rng.choice(["a", "A", "b-c", "B-c", "r1"]), *[rand_tree(P, rng, depth - 1) for _ in range(rng.randint(0, 3))])


def clone(P, n):
    if isinstance(n, P.LiteralNode):
        return P.LiteralNode(n.value, n.offset, n.length)
    return P.Node(n.name, *[clone(P, c) for c in n.children])


def mutate_tree(P, rng, n):
    """copy with exactly one field changed somewhere"""
    if isinstance(n, P.LiteralNode):
        k = rng.randrange(3)
        if k == 0:
            return P.LiteralNode(n.value + "x", n.offset, n.length)
        if k == 1:
            return P.LiteralNode(n.value, n.offset + 1, n.length)
        return P.LiteralNode(n.value, n.offset, n.length + 1)
    ch = [clone(P, c) for c in n.children]
    k = rng.randrange(5)
    if k == 4:
        # same names and leaves in the same document order, other SHAPE: a child becomes the last child of its left sibling,
        # or the children of a child are lifted into the parent
        js = [j for j in range(1, len(ch)) if not isinstance(ch[j - 1], P.LiteralNode)]
        ls = [j for j in range(len(ch)) if not isinstance(ch[j], P.LiteralNode) and ch[j].children]
        if js and (rng.random() < 0.5 or not ls):
            j = rng.choice(js)
            ch[j - 1] = P.Node(ch[j - 1].name, *ch[j - 1].children, ch[j])
            del ch[j]
            return P.Node(n.name, *ch)
        if ls:
            j = rng.choice(ls)
            inner = ch[j]
            cut = rng.randrange(len(inner.children))
            ch[j:j + 1] = [P.Node(inner.name, *inner.children[:cut])] + list(inner.children[cut:])
            return P.Node(n.name, *ch)
        k = rng.randrange(4)
    if k == 0 or not ch:
        if rng.random() < 0.5 or not ch:
            return P.Node(n.name.swapcase() if n.name.swapcase() != n.name else n.name + "x", *ch)
        return P.Node(n.name, *ch[:-1])
    if k == 1:
        return P.Node(n.name, *ch, P.LiteralNode("", 0, 0))
    if k == 2:
        j = rng.randrange(len(ch))
        ch[j] = mutate_tree(P, rng, ch[j])
        return P.Node(n.name, *ch)
    # a node that "looks like" a leaf: same value, different class
    j = rng.randrange(len(ch))
    if isinstance(ch[j], P.LiteralNode):
        ch[j] = P.Node("literal")
    else:
        ch[j] = P.LiteralNode(ch[j].value, 0, len(ch[j].value))
    return P.Node(n.name, *ch)


def run(ctx):
    P = lib.import_repo()
    import bundled
    cc.proof_part(ctx)
    rng = random.Random(ctx.seed)
    # ---- (a) dispatch
    names = []
    for m in bundled.module_names():
        names += [r.name for r in bundled.load(m).Rule.rules()]
    names += [r.name for r in P.Rule.rules()] + [r.name for r in P.ABNFGrammarRule.rules()]
    names = sorted(set(names))
    for _ in range(ctx.budget(300, 5000)):
        n = rng.choice(string.ascii_letters) + "".join(rng.choice(string.ascii_letters + string.digits + "-") for _ in range(rng.randint(0, 8)))
        names.append(n)
    lines = []
    expect = []
    found = False
    rep = 0
    for name in names:
        variants = {name, name.upper(), name.lower(), name.swapcase()}
        keys = sorted({norm(name), norm(rng.choice(names)), "literal"} - ({norm(name)} if rng.random() < 0.2 else set()))
        # generated visitor class with one handler per key
        called = []
        ns = {}
        for k in keys:
            ns["visit_" + k] = (lambda kk: (lambda self, node: (called.append((kk, node)), "ret:" + kk)[1]))(k)
        # attributes spelled like the rule name in its ORIGINAL letter case (visit_ALPHA, visit_IPv4address) are not "the
        # method named after the lower-cased name": they must never be invoked
        if rng.random() < 0.5:
            for nm in sorted(variants):
                raw = nm.replace("-", "_")
                if raw != raw.lower():
                    ns["visit_" + raw] = (lambda kk: (lambda self, node: (called.append(("DECOY:" + kk, node)), "decoy")[1]))(raw)
        # how the handlers reach the visitor: declared on a direct subclass, inherited from a parent visitor class,
        # split over two levels, or attached to the class after the class statement (all are "a visitor's method")
        shape = rng.randrange(7)
        if shape == 6:
            # a PARENT visitor class that has already been instantiated; the visitor used below is of a subclass that adds
            # handlers of its own
            items = sorted(ns.items())
            Base = type("Base", (P.NodeVisitor,), dict(items[::2]))
            Base()
            V = type("V", (Base,), dict(items[1::2]))
        elif shape == 4:
            # the class has ALREADY been instantiated (with fewer handlers) when the rest of its handlers are attached; the
            # visitor used below is created afterwards and has all of them
            items = sorted(ns.items())
            V = type("V", (P.NodeVisitor,), dict(items[::2]))
            V()
            for k2, f2 in items[1::2]:
                setattr(V, k2, f2)
        elif shape == 5:
            # handlers bound on the INSTANCE before NodeVisitor.__init__ runs (as the library's own grammar visitor does); an
            # earlier instance of the same class was created without them
            items = sorted(ns.items())

            def _init(self, with_own=True, _items=items):
                if with_own:
                    for k2, f2 in _items[1::2]:
                        setattr(self, k2, f2.__get__(self))
                P.NodeVisitor.__init__(self)
            V = type("V", (P.NodeVisitor,), dict(items[::2], __init__=_init))
            V(with_own=False)
        elif shape == 0:
            V = type("V", (P.NodeVisitor,), ns)
        elif shape == 1:
            V = type("V", (type("Base", (P.NodeVisitor,), ns),), {})
        elif shape == 2:
            items = sorted(ns.items())
            V = type("V", (type("Base", (P.NodeVisitor,), dict(items[::2])),), dict(items[1::2]))
        else:
            V = type("V", (P.NodeVisitor,), {})
            for k2, f2 in ns.items():
                setattr(V, k2, f2)
        v = V()
        for nm in sorted(variants):
            for node in (P.Node(nm, P.LiteralNode("x", 0, 1)), P.LiteralNode("y", 3, 1)):
                called.clear()
                try:
                    ret = v.visit(node) if rng.random() < 0.5 else v(node)
                except Exception as e:  # noqa
                    ret = "exc:" + type(e).__name__
                if called and called[0][0].startswith("DECOY:"):
                    got = "invoked visit_" + called[0][0][6:]
                elif called:
                    got = "handler %d" % keys.index(called[0][0])
                    if called[0][1] is not node or ret != "ret:" + called[0][0] or len(called) != 1:
                        got += " WRONG-NODE-OR-RESULT"
                else:
                    got = "none" if ret is None else "ret:%r" % (ret,)
                nm2 = "literal" if isinstance(node, P.LiteralNode) else nm
                lines.append("dispatch " + nm2 + " " + " ".join(keys))
                expect.append((nm2, keys, got))
    out = lib.run_driver(lines)
    dis = 0
    hits = 0
    for (nm, keys, got), model in zip(expect, out):
        if got.startswith("handler"):
            hits += 1
        if got != model:
            dis += 1
            if rep < 3:
                rep += 1
                found = True
                ctx.report("visitor dispatch for node name %r with handlers %s: implementation %s, model %s" % (nm, ["visit_" + k for k in keys], got, model),
                           {"kind": "dispatch", "name": nm, "keys": keys, "implementation": got, "model": model}, key="dispatch:" + lib.digest([nm, keys]))
    # ---- (b) equality
    lines = []
    expect2 = []
    for _ in range(ctx.budget(4000, 60000)):
        a = rand_tree(P, rng)
        u = rng.random()
        if u < 0.35:
            b = clone(P, a)
        elif u < 0.8:
            b = mutate_tree(P, rng, a)
        else:
            b = rand_tree(P, rng)
        try:
            r = "eq" if (a == b) else "ne"
            r2 = "eq" if not (a != b) else "ne"
            if r != r2:
                r += " NE-INCONSISTENT"
        except Exception as e:  # noqa
            r = "exc:" + type(e).__name__
        lines.append("treeeq " + tree_prefix(P, a) + " " + tree_prefix(P, b))
        expect2.append((a, b, r))
    out2 = lib.run_driver(lines)
    eqs = 0
    for (a, b, r), model, line in zip(expect2, out2, lines):
        if r == "eq":
            eqs += 1
        if r != model:
            dis += 1
            if rep < 6:
                rep += 1
                found = True
                ctx.report("tree equality: implementation says %s, structural equality says %s for %s" % (r, model, line[:200]),
                           {"kind": "treeeq", "line": line, "implementation": r, "model": model}, key="treeeq:" + lib.digest(line))
    ctx.coverage.update({
        "evaluations": len(expect) + len(expect2),
        "distinct_nontrivial": hits + (len(expect2) - eqs),
        "rule": "(a) every bundled/core/meta rule name and random names in 4 case variants x generated visitor classes (handler present / absent / only for another name / literal) "
                "x Node and LiteralNode; (b) random tree pairs: clones, single-field mutants (text, offset, length, name case, child added/dropped, node-vs-leaf), re-nested trees (same names and leaves in document order, other shape), unrelated; visitor classes also carry attributes spelled in the rule name's original letter case; "
                "non-trivial = a handler was invoked, or the trees were unequal",
        "samples": [{"name": expect[0][0], "handlers": expect[0][1], "outcome": expect[0][2]}, {"pair": lines[0], "outcome": expect2[0][2]}],
        "names": len(names), "dispatch_cases": len(expect), "equality_cases": len(expect2), "equal_pairs": eqs,
        "disagreements_model_vs_impl": dis,
    })
    cc.conclude(ctx, 0, found)


def replay(rp):
    P = lib.import_repo()
    if rp["kind"] == "dispatch":
        called = []
        ns = {"visit_" + k: (lambda kk: (lambda self, node: called.append(kk)))(k) for k in rp["keys"]}
        v = type("V", (P.NodeVisitor,), ns)()
        node = P.LiteralNode("y", 3, 1) if rp["name"] == "literal" else P.Node(rp["name"])
        v.visit(node)
        got = ("handler %d" % rp["keys"].index(called[0])) if called else "none"
        print("implementation:", got, "model:", rp["model"])
        return 0 if got == rp["model"] else 1
    print(rp["line"], rp["implementation"], rp["model"])
    return 1
