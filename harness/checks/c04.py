"""C04 — compiling ABNF text yields the parser the text denotes, whatever its layout.

ABNF abstract syntax trees are generated (all element kinds, all repeat forms, radix and case of
markers at random, `=/`, `<name>`, prose), rendered with random layout (spaces, tabs, comments,
continuation lines, comments inside defined-as, LF vs CRLF), compiled through every route
(create, load_grammar strict / non-strict, from_file, both decorators) and the extracted object
graph is compared with the structure the AST denotes (`sem`, written independently below)."""
from __future__ import annotations

import os
import random

import common_check as cc
import lib

NAMES = ["foo", "Bar-1", "x", "y2", "rule-9z"]


class Gen:
    def __init__(self, rng):
        self.rng = rng

    def elem(self, d):
        rng = self.rng
        t = rng.random()
        if d <= 0 or t < 0.5:
            u = rng.random()
            if u < 0.25:
                return ("ref", rng.choice(NAMES + ["DIGIT", "ALPHA", "HEXDIG"]))
            if u < 0.5:
                s = "".join(rng.choice('aB1 !#~;/()[]*=<>%kK') for _ in range(rng.randint(0, 3)))
                return ("cv", s, rng.choice([None, "i", "s", "I", "S"]))
            if u < 0.9:
                radix = rng.choice("bdxBDX")
                if rng.random() < 0.4:
                    lo = rng.randint(0, 0x10FFFF)
                    hi = rng.randint(lo, 0x10FFFF)
                    return ("nvr", radix, lo, hi)
                return ("nvs", radix, [rng.choice([0, 1, 9, 10, 0x41, 0x7F, 0x80, 0xFF, 0x100, 0xD800, 0xFFFF, 0x10000, 0x10FFFF,
                                                   rng.randint(0, 0x10FFFF)]) for _ in range(rng.randint(1, 3))])
            return rng.choice([("prose", "some prose; text"), ("prose", ""), ("prose", "9x"), ("pref", rng.choice(NAMES))])
        if t < 0.75:
            return ("group", self.alt(d - 1))
        return ("opt", self.alt(d - 1))

    def rep(self):
        rng = self.rng
        if rng.random() < 0.5:
            return None
        a = rng.choice([0, 1, 2, 3, 10, 7, 255])
        b = a + rng.choice([0, 1, 5])
        return rng.choice([("n", a), ("ab", a, b), ("a*", a), ("*b", b), ("*",)])

    def concat(self, d):
        return [(self.rep(), self.elem(d)) for _ in range(self.rng.randint(1, 3))]

    def alt(self, d):
        return [self.concat(d) for _ in range(self.rng.randint(1, 3))]


class Render:
    """Concrete syntax with random layout."""

    def __init__(self, rng, plain=False):
        self.rng = rng
        self.plain = plain

    def cwsp(self, minimum=0):
        rng = self.rng
        if self.plain:
            return " " * max(minimum, 1 if rng.random() < 0.5 else minimum)
        out = ""
        for _ in range(rng.randint(minimum, minimum + 2)):
            t = rng.random()
            if t < 0.6:
                out += rng.choice(" \t")
            elif t < 0.8:
                out += "\r\n" + rng.choice(" \t")
            else:
                out += "; c=/ " + rng.choice(["", 'x "q" ', "=", "=/", "<p>"]) + "\r\n" + rng.choice(" \t")
        return out

    def num(self, n, radix):
        rng = self.rng
        r = radix.lower()
        s = {"b": format(n, "b"), "d": str(n), "x": rng.choice([format(n, "x"), format(n, "X")])}[r]
        if rng.random() < 0.2:
            s = "0" * rng.randint(1, 2) + s
        return s

    def elem(self, e):
        rng = self.rng
        k = e[0]
        if k == "ref":
            return "".join(rng.choice([c.lower(), c.upper()]) for c in e[1])
        if k == "pref":
            return "<" + e[1] + ">"
        if k == "prose":
            return "<" + e[1] + ">"
        if k == "cv":
            return ("" if e[2] is None else "%" + e[2]) + '"' + e[1] + '"'
        if k == "nvr":
            return "%" + e[1] + self.num(e[2], e[1]) + "-" + self.num(e[3], e[1])
        if k == "nvs":
            return "%" + e[1] + ".".join(self.num(v, e[1]) for v in e[2])
        if k == "group":
            return "(" + self.cwsp() + self.alt(e[1]) + self.cwsp() + ")"
        if k == "opt":
            return "[" + self.cwsp() + self.alt(e[1]) + self.cwsp() + "]"
        raise ValueError(e)

    def rep(self, r):
        if r is None:
            return ""
        if r[0] == "n":
            return str(r[1])
        if r[0] == "ab":
            return f"{r[1]}*{r[2]}"
        if r[0] == "a*":
            return f"{r[1]}*"
        if r[0] == "*b":
            return f"*{r[1]}"
        return "*"

    def concat(self, c):
        return self.cwsp(1).join(self.rep(r) + self.elem(e) for r, e in c)

    def alt(self, a):
        parts = [self.concat(c) for c in a]
        return "".join(p if i == 0 else self.cwsp() + "/" + self.cwsp() + p for i, p in enumerate(parts))

    def rule(self, name, op, a):
        rng = self.rng
        tail = "" if self.plain else rng.choice(["", "", " ; trailing comment"])
        return name + self.cwsp() + op + self.cwsp() + self.alt(a) + (self.cwsp() if not self.plain else "") + tail


# ---- what the AST denotes (independent of the library) -------------------------------------

def sem_elem(e):
    k = e[0]
    if k in ("ref", "pref"):
        return ("ref", e[1].lower())
    if k == "prose":
        return ("prose",)
    if k == "cv":
        return ("lit", e[1], e[2] in ("s", "S"))
    if k == "nvr":
        return ("range", e[2], e[3])
    if k == "nvs":
        return ("lit", "".join(chr(v) for v in e[2]), True)
    if k == "group":
        return sem_alt(e[1])
    if k == "opt":
        return ("rep", 0, 1, sem_alt(e[1]))
    raise ValueError(e)


def sem_rep(r, el):
    if r is None:
        return el
    if r[0] == "n":
        return ("rep", r[1], r[1], el)
    if r[0] == "ab":
        return ("rep", r[1], r[2], el)
    if r[0] == "a*":
        return ("rep", r[1], None, el)
    if r[0] == "*b":
        return ("rep", 0, r[1], el)
    return ("rep", 0, None, el)


def sem_concat(c):
    items = [sem_rep(r, sem_elem(e)) for r, e in c]
    return items[0] if len(items) == 1 else ("cat", items)


def sem_alt(a):
    items = [sem_concat(c) for c in a]
    return items[0] if len(items) == 1 else ("alt", items)


def flat(x):
    """Normal form: nested alternations flattened (union is associative)."""
    k = x[0]
    if k == "alt":
        out = []
        for y in x[1]:
            y = flat(y)
            if y[0] == "alt":
                out.extend(y[1])
            else:
                out.append(y)
        return ("alt", out)
    if k == "cat":
        return ("cat", [flat(y) for y in x[1]])
    if k == "rep":
        return ("rep", x[1], x[2], flat(x[3]))
    return x


def dump(P, p):
    if isinstance(p, P.Rule):
        return ("ref", p.name.lower())
    if isinstance(p, P.Alternation):
        return ("alt", [dump(P, q) for q in p.parsers])
    if isinstance(p, P.Concatenation):
        return ("cat", [dump(P, q) for q in p.parsers])
    if isinstance(p, P.Option):
        return ("rep", 0, 1, dump(P, p.alternation))
    if isinstance(p, P.Repetition):
        return ("rep", p.repeat.min, p.repeat.max, dump(P, p.element))
    if isinstance(p, P.Literal):
        if isinstance(p.value, tuple):
            return ("range", ord(p.value[0]), ord(p.value[1]))
        return ("lit", p.value, p.case_sensitive)
    if isinstance(p, P.Prose):
        return ("prose",)
    return ("unknown", type(p).__name__)


ROUTES = ["create", "load_nonstrict", "load_strict_lf", "load_strict_crlf", "from_file", "deco_rules", "deco_rulelist"]


def compile_route(P, route, rule_texts, tag=[0]):
    """rule_texts: list of single-rule texts (CRLF inside for continuation), no final line end."""
    from abnf.grammars import misc
    tag[0] += 1
    if route == "deco_rules":
        cls = misc.load_grammar_rules()(type(f"C04_{tag[0]}", (P.Rule,), {"grammar": list(rule_texts)}))
        return cls
    text = "\r\n".join(rule_texts) + "\r\n"
    if route == "deco_rulelist":
        return misc.load_grammar_rulelist()(type(f"C04_{tag[0]}", (P.Rule,), {"grammar": text.replace("\r\n", "\n")}))
    cls = type(f"C04_{tag[0]}", (P.Rule,), {})
    if route == "create":
        for t in rule_texts:
            cls.create(t)
    elif route == "load_nonstrict":
        cls.load_grammar(text, strict=False)
    elif route == "load_strict_lf":
        cls.load_grammar(text.replace("\r\n", "\n"))
    elif route == "load_strict_crlf":
        cls.load_grammar(text)
    elif route == "from_file":
        d = os.path.join(lib.RUN_DIR, "C04")
        os.makedirs(d, exist_ok=True)
        path = os.path.join(d, f"g_{os.getpid()}.abnf")
        with open(path, "w", newline="", encoding="ascii") as f:
            f.write(text)
        try:
            if tag[0] % 2:
                cls.from_file(path)
            else:
                import pathlib
                cls.from_file(pathlib.Path(path))
        finally:
            os.unlink(path)
    else:
        raise ValueError(route)
    return cls


def gen_case(rng):
    g = Gen(rng)
    n = rng.randint(1, 3)
    names = rng.sample(NAMES, n)
    rules = []
    expected = {}
    for nm in names:
        a = g.alt(2)
        rules.append((nm, "=", a))
        expected[nm.lower()] = sem_alt(a)
        if rng.random() < 0.3:
            b = g.alt(1)
            rules.append(("".join(rng.choice([c.lower(), c.upper()]) for c in nm), "=/", b))
            expected[nm.lower()] = ("alt", [expected[nm.lower()], sem_alt(b)])
    return rules, expected


CORE_ALT = ["ALPHA", "BIT", "CTL", "HEXDIG", "WSP", "DIGIT", "CRLF"]


def core_snapshot(P):
    """structure of every core rule and of the reader's own rules: compiling a text into some class must never change
    them (the text denotes rules of THAT class only)"""
    return {(c.__name__, k[1]): repr(dump(P, r.definition)) for k, r in list(P.Rule._obj_map.items())
            for c in [k[0]] if c in (P.Rule, P.ABNFGrammarRule) and hasattr(r, "definition")}


def check_case(P, rng, rules, expected, route, plain):
    r = Render(rng, plain=plain)
    texts = [r.rule(nm, op, a) for nm, op, a in rules]
    expected = dict(expected)
    if rng.random() < 0.35:
        # extend a CORE rule's name inside this class: the class gets its own rule = core definition / new alternative
        core = rng.choice(CORE_ALT)
        b = Gen(rng).alt(1)
        texts.append(r.rule("".join(rng.choice([c.lower(), c.upper()]) for c in core), "=/", b))
        expected[core.lower()] = ("alt", [dump(P, P.Rule(core).definition), sem_alt(b)])
    before = core_snapshot(P)
    try:
        cls = compile_route(P, route, texts)
    except Exception as e:  # noqa
        return texts, f"{type(e).__name__}: {str(e)[:120]}"
    after = core_snapshot(P)
    if after != before:
        changed = sorted(k for k in set(before) | set(after) if before.get(k) != after.get(k))
        return texts, f"compiling into a fresh class changed shared rules {changed[:4]}: e.g. {before.get(changed[0])!r} -> {after.get(changed[0])!r}"
    for nm, exp in expected.items():
        rule = cls.get(nm)
        if rule is None or not hasattr(rule, "definition"):
            return texts, f"rule {nm!r} not defined"
        got = flat(dump(P, rule.definition))
        if got != flat(exp):
            return texts, f"structure of {nm!r}: expected {flat(exp)!r} got {got!r}"
        if cls.get(nm.upper()) is not rule:
            return texts, f"rule name {nm!r} is not case-insensitive"
    return texts, None


CORPUS_TEXTS = [
    (["a ; c\r\n = \"x\""], {"a": ("lit", "x", False)}),
    (["a = \"x\"", "a ;c\r\n =/ \"y\""], {"a": ("alt", [("lit", "x", False), ("lit", "y", False)])}),
    (["d = 2*3\"x\" *4\"y\" 5*\"z\" 6\"w\" *\"v\""],
     {"d": ("cat", [("rep", 2, 3, ("lit", "x", False)), ("rep", 0, 4, ("lit", "y", False)), ("rep", 5, None, ("lit", "z", False)),
                    ("rep", 6, 6, ("lit", "w", False)), ("rep", 0, None, ("lit", "v", False))])}),
    (["e = %d65.66.67 %b1000001 %x41-5A %X41 %D65 %B1"],
     {"e": ("cat", [("lit", "ABC", True), ("lit", "A", True), ("range", 0x41, 0x5A), ("lit", "A", True), ("lit", "A", True), ("lit", "\x01", True)])}),
]


def decoder_correspondence(P, rng, n):
    """The real visitor's decoders vs the Lean model of them (Abnf/Compile.lean) on random repeat / num-val texts and
    random texts for the line-end normalisation."""
    lines = []
    expect = []
    vis = P.ABNFGrammarNodeVisitor(type("Dec", (P.Rule,), {}))

    def cp(s):
        return " ".join(str(ord(c)) for c in s)

    for _ in range(n):
        # repeat
        a = "".join(rng.choice("0123456789") for _ in range(rng.randint(0, 4)))
        b = "".join(rng.choice("0123456789") for _ in range(rng.randint(0, 4)))
        star = rng.random() < 0.7
        text = a + ("*" + b if star else "")
        if text:
            try:
                node = P.ABNFGrammarRule("repeat").parse_all(text)
                r = vis.visit_repeat(node)
                got = f"{r.min} {'-' if r.max is None else r.max}"
            except P.ParseError:
                got = None
            if got is not None:
                lines.append(f"decrepeat {cp(a)} | {1 if star else 0} | {cp(b) if star else ''}".replace("  ", " "))
                expect.append(("repeat", text, got))
        # num-val
        radix = rng.choice("bdxBDX")
        base = {"b": 2, "d": 10, "x": 16}[radix.lower()]
        digs = "01" if base == 2 else "0123456789" if base == 10 else "0123456789abcdefABCDEF"

        def num():
            return "".join(rng.choice(digs) for _ in range(rng.randint(1, 5)))
        first = num()
        kind = rng.choice(["single", "range", "series"])
        more = [] if kind == "single" else [num()] if kind == "range" else [num() for _ in range(rng.randint(1, 3))]
        text = "%" + radix + first + ("" if kind == "single" else "-" + more[0] if kind == "range" else "".join("." + m for m in more))
        try:
            vals = [int(first, base)] + [int(m, base) for m in more]
            if max(vals) > 0x10FFFF:
                continue
            node = P.ABNFGrammarRule("num-val").parse_all(text)
            lit = vis.visit(node)
            if isinstance(lit.value, tuple):
                got = f"range {ord(lit.value[0])} {ord(lit.value[1])}"
            else:
                got = "lit" + "".join(f" {ord(c)}" for c in lit.value)
        except P.ParseError:
            continue
        lines.append(f"decnumval {base} {kind} {cp(first)}" + "".join(" | " + cp(m) for m in more))
        expect.append(("num-val", text, got))
        # line ends (strict loading): what the reader is given
        t = "".join(rng.choice(["a", " ", "\n", "\r\n", "\r", "=", "\t"]) for _ in range(rng.randint(0, 8))).rstrip() 
        seen = []
        orig = P.ABNFGrammarRule("rulelist").parse_all
        lines.append("normle" + (" " + cp(t) if t else ""))
        expect.append(("line-ends", t, cp(t.rstrip().replace("\r", "").replace("\n", "\r\n") + "\r\n")))
    out = lib.run_driver(lines)
    bad = [(k, t, g, m) for (k, t, g), m in zip(expect, out) if g != m]
    return len(expect), bad


# ---- the whole compiler: model (driver command `compile`: model engine on the reader's table + model of the visitors,
# Abnf/CompileTree.lean) against Rule.create on the same rule text

def fold_ascii(s):
    return "".join(chr(ord(c) + 32) if "A" <= c <= "Z" else c for c in s)


def cdump(P, p):
    if isinstance(p, P.Rule):
        return "(ref" + "".join(" %d" % ord(c) for c in fold_ascii(p.name)) + ")"
    if isinstance(p, P.Alternation):
        return "(alt" + "".join(" " + cdump(P, q) for q in p.parsers) + ")"
    if isinstance(p, P.Concatenation):
        return "(cat" + "".join(" " + cdump(P, q) for q in p.parsers) + ")"
    if isinstance(p, P.Option):
        return "(opt " + cdump(P, p.alternation) + ")"
    if isinstance(p, P.Repetition):
        return "(rep %d %s %s)" % (p.repeat.min, "-" if p.repeat.max is None else p.repeat.max, cdump(P, p.element))
    if isinstance(p, P.Literal):
        if isinstance(p.value, tuple):
            return "(range %d %d)" % (ord(p.value[0]), ord(p.value[1]))
        return "(lit %d%s)" % (1 if p.case_sensitive else 0, "".join(" %d" % ord(c) for c in p.value))
    if isinstance(p, P.Prose):
        return "(prose)"
    return "(unknown %s)" % type(p).__name__


HAND_TEXTS = ['a = %x110000', 'a = %d1114112', 'a = "x" b', 'a', 'a = ', 'a =/ <b> <9x> < >', 'a = 1*2( b / "c" ) [ d ]\r\n', 'a = "x"\r\nb = "y"',
              'A-b = %b1.10-11', 'a = %x41-5A.30', 'a = 0"x" 00*01"y"', 'a = ("b")', 'a = [ ( "b" ) ]', 'a = <b-1> / <b_1>', 'a = %s"" %i"Q" "q"',
              'a = "x" ; c\r\n  / "y"', 'a = 1*\r\n "x"', 'a=b', 'a= b', '1a = b', 'a = b /', 'a = ( b', 'a = %x', 'a = %d65-', 'a = *', 'a = "x', "a\t=\t%x41\t"]


def real_create(P, text):
    """`Rule.create(text)` in a fresh class; for `=/` the rule is pre-defined with a marker so that the NEW alternative
    can be read off the result.  Returns the canonical string the model prints."""
    cls = type("C04c", (P.Rule,), {})
    head = text.split('"')[0].split("<")[0]
    nm = head.split("=")[0].split(";")[0].strip()
    try:
        if "=/" in head and nm:
            try:
                cls(nm, P.Literal("\x00MARK"))
            except Exception:  # noqa
                pass
        rule = cls.create(text)
        d = rule.definition
        inc = False
        if isinstance(d, P.Alternation) and len(d.parsers) == 2 and isinstance(d.parsers[0], P.Literal) and d.parsers[0].value == "\x00MARK":
            d = d.parsers[1]
            inc = True
        return "ok" + "".join(" %d" % ord(c) for c in nm) + " | " + ("=/" if inc else "=") + " | " + cdump(P, d)
    except P.ParseError:
        return "ParseError"
    except P.GrammarError:
        return "gerr"
    except Exception as ex:  # noqa
        return "exc " + type(ex).__name__


def ref_dump(a):
    k = a[0]
    if k == "lit":
        return "(lit %d%s)" % (1 if a[2] else 0, "".join(" %d" % ord(c) for c in a[1]))
    if k == "range":
        return "(range %d %d)" % (a[1], a[2])
    if k == "prose":
        return "(prose)"
    if k in ("alt", "cat"):
        return "(" + k + "".join(" " + ref_dump(x) for x in a[1]) + ")"
    if k == "rep":
        return "(rep %d %s %s)" % (a[1], "-" if a[2] is None else a[2], ref_dump(a[3]))
    if k == "opt":
        return "(opt " + ref_dump(a[1]) + ")"
    if k == "refname":
        return "(ref" + "".join(" %d" % ord(c) for c in fold_ascii(a[1])) + ")"
    raise ValueError(a)


def ref_create(text):
    """the INDEPENDENT reading of a rule text (harness/abnf_ref.py, written without the library): operator and structure,
    'ParseError' if it is not a rule, 'exc' if a number is no code point.  Used to adjudicate a disagreement between the
    compiler model and the code: which of the two the text really denotes."""
    import abnf_ref
    try:
        _name, op, ast = abnf_ref.read_rule(text)
    except abnf_ref.AbnfSyntaxError:
        return "ParseError"
    except (ValueError, OverflowError):
        return "exc"
    return op + " | " + ref_dump(ast)


def strip_name(outcome):
    if outcome.startswith("ok"):
        return outcome.split(" | ", 1)[1]
    return "exc" if outcome.startswith("exc") else outcome


def compile_correspondence(P, rng, ncases, nbundled=0):
    """returns (number of texts, outcome kinds, disagreements [(text, model, code)])"""
    enc = lib.Encoder(P, [P.ABNFGrammarRule("rule")])
    glines = enc.grammar_lines()
    texts = list(HAND_TEXTS)
    # the rule texts of the bundled grammar modules (those given as lists of single rules): real-world corpus
    import bundled
    corpus = []
    for m in bundled.module_names():
        mod = bundled.load(m)
        for obj in vars(mod).values():
            g = getattr(obj, "grammar", None)
            if isinstance(obj, type) and issubclass(obj, P.Rule) and obj.__module__ == mod.__name__ and isinstance(g, list):
                corpus.extend(t for t in g if isinstance(t, str))
    rng.shuffle(corpus)
    texts.extend(corpus[:nbundled])
    for k in range(ncases):
        rules, _expected = gen_case(rng)
        r = Render(rng, plain=(k % 3 == 0))
        for nm, op, a in rules:
            t = r.rule(nm, op, a)
            texts.append(t)
            if k % 5 == 0 and t:
                # a corrupted variant: most are rejected, some still compile to something else
                pos = rng.randrange(len(t))
                texts.append(t[:pos] + rng.choice(['"', "%", "(", ")", "[", "*", "=", "/", "<", ">", "-", ".", " ", "\r\n", ""]) + t[pos + 1:])
    blocks = []
    per = 25
    for k in range(0, len(texts), per):
        blocks.append(list(glines) + ["compile 0" + "".join(" %d" % ord(c) for c in t) for t in texts[k:k + per]])
    outs = lib.run_driver_parallel(blocks)
    model = [o for block in outs for o in block[1:]]
    kinds = {}
    bad = []
    for t, m in zip(texts, model):
        c = real_create(P, t)
        kinds[c.split(" ")[0] + (" " + c.split(" ")[1] if c.startswith("exc") else "")] = kinds.get(c.split(" ")[0] + (" " + c.split(" ")[1] if c.startswith("exc") else ""), 0) + 1
        if c != m:
            bad.append((t, m, c))
    return len(texts), kinds, bad


def _chunk(args):
    seed, n = args
    P = lib.import_repo()
    if seed % 2 == 1:
        import pollute
        pollute.restate_core(P)     # the default namespace restates core rules in lower case (language-preserving)
    rng = random.Random(seed)
    evals = 0
    distinct = set()
    fails = {}
    samples = []
    bad = []
    for k in range(n):
        rules, expected = gen_case(rng)
        for layout in range(2):
            for route in ROUTES:
                evals += 1
                texts, why = check_case(P, rng, rules, expected, route, plain=(layout == 0 and k % 4 == 0))
                distinct.add(lib.digest(texts))
                if len(samples) < 1 and route == "load_nonstrict":
                    samples.append({"texts": texts, "route": route, "expected": repr(expected)[:300]})
                if why:
                    fails[why.split(":")[0]] = fails.get(why.split(":")[0], 0) + 1
                    if len(bad) < 3:
                        bad.append((route, texts, expected, why))
    return evals, distinct, fails, samples, bad


def run(ctx):
    P = lib.import_repo()
    cc.proof_part(ctx)
    rng = random.Random(ctx.seed)
    found = False
    rep = 0
    evals = 0
    distinct = set()
    fails = {}
    samples = []
    for texts, exp in CORPUS_TEXTS:
        for route in ROUTES:
            evals += 1
            try:
                cls = compile_route(P, route, texts)
                why = None
                for nm, e in exp.items():
                    got = flat(dump(P, cls(nm).definition))
                    if got != flat(e):
                        why = f"structure of {nm!r}: expected {flat(e)!r} got {got!r}"
            except Exception as ex:  # noqa
                why = f"{type(ex).__name__}: {str(ex)[:100]}"
            if why:
                fails[why.split(":")[0]] = fails.get(why.split(":")[0], 0) + 1
                if rep < 3:
                    found = True
                    rep += 1
                    ctx.report("compiled structure differs from what the text denotes (route %s): %r: %s" % (route, texts, why),
                               {"kind": "compile", "route": route, "texts": texts, "expected": exp, "why": why}, key="compile:" + lib.digest([texts, route]))
    ndec, decbad = decoder_correspondence(P, rng, ctx.budget(1500, 30000))
    evals += ndec
    for k, t, g, m in decbad[:2]:
        found = True
        rep += 1
        ctx.report("decoder %s on %r: implementation %r, model %r" % (k, t, g, m), {"kind": "decoder", "decoder": k, "text": t, "implementation": g, "model": m},
                   key="decoder:%s:%s" % (k, t))
    ncomp, ckinds, cbad = compile_correspondence(P, rng, ctx.budget(120, 2500), ctx.budget(150, 100000))
    evals += ncomp
    # a disagreement model / code is adjudicated by the independent reader: if the CODE deviates from what the text
    # denotes, that text is a failing input of the property
    for t, m, c in cbad:
        r = ref_create(t)
        if strip_name(c) != r and rep < 3:
            found = True
            rep += 1
            ctx.report("Rule.create(%r) gives %s; the text denotes %s" % (t, c[:200], r[:200]),
                       {"kind": "compile-text", "text": t, "code": c, "model": m, "independent_reading": r}, key="compile-text:" + lib.digest(t))
    ctx.corr_samples = [{"text": t, "model": m[:400], "code": c[:400]} for t, m, c in cbad[:5]]
    ctx.coverage["compiler_model_correspondence"] = {
        "texts": ncomp, "outcomes_of_the_real_code": ckinds, "disagreements": len(cbad),
        "compared": "Rule.create(text) in a fresh class vs the Lean model of the whole compiler (model engine on the reader's table sent over the wire, "
                    "then the model of ABNFGrammarNodeVisitor / CharValNodeVisitor / NumValVisitor): rule name, operator, full structure of the "
                    "definition, or the exception class; generated rule texts with random layout, corrupted variants, hand-picked boundary texts, rule texts of the bundled grammar modules"}
    n = ctx.budget(160, 3000)
    chunks = 32
    import multiprocessing as mp
    with mp.Pool(16) as pool:
        parts = lib.safe_map(pool, _chunk, [(ctx.seed * 1000 + c, n // chunks + 1) for c in range(chunks)])
    for ev, dist, fl, smp, bad in parts:
        evals += ev
        distinct |= dist
        for k2, v in fl.items():
            fails[k2] = fails.get(k2, 0) + v
        samples.extend(smp[: max(0, 3 - len(samples))])
        for route, texts, expected, why in bad:
            if rep < 3:
                found = True
                rep += 1
                ctx.report("compiled structure differs from what the text denotes (route %s): %r: %s" % (route, texts, why[:200]),
                           {"kind": "compile", "route": route, "texts": texts, "expected": {k2: repr(v) for k2, v in expected.items()},
                            "expected_raw": expected, "why": why}, key="compile:" + lib.digest([texts, route]))
    ctx.coverage.update({
        "evaluations": evals,
        "distinct_nontrivial": len(distinct),
        "rule": "generated ABNF ASTs (1-3 rules, every element kind and repeat form, = and =/) x 2 random layouts x 7 loading routes; "
                "distinct = distinct rendered texts; every rendering contains at least one repeat/num-val/char-val/group to decode",
        "samples": samples, "failure_kinds": fails, "routes": ROUTES, "decoder_cases": ndec, "decoder_disagreements": len(decbad),
    })
    cc.conclude(ctx, len(cbad), found)


def replay(rp):
    P = lib.import_repo()
    if rp.get("kind") == "compile-text":
        c = real_create(P, rp["text"])
        r = ref_create(rp["text"])
        print("Rule.create:", c[:300], "\nthe text denotes:", r[:300])
        return 0 if strip_name(c) == r else 1
    if rp.get("broken") == "correspondence":
        enc = lib.Encoder(P, [P.ABNFGrammarRule("rule")])
        bad = 0
        for smp in rp.get("first_disagreements", []):
            out = lib.run_driver(list(enc.grammar_lines()) + ["compile 0" + "".join(" %d" % ord(c) for c in smp["text"])])
            c = real_create(P, smp["text"])
            print(repr(smp["text"]), "\n  model:", out[-1][:300], "\n  code :", c[:300])
            bad += out[-1] != c
        return 1 if bad else 0
    try:
        cls = compile_route(P, rp["route"], rp["texts"])
    except Exception as e:  # noqa
        print("exception:", type(e).__name__, e)
        return 1
    exp = rp.get("expected_raw") or rp["expected"]
    bad = 0
    for nm, e in exp.items():
        def tup(x):
            return tuple(tup(y) for y in x) if isinstance(x, (list, tuple)) else x
        got = flat(dump(P, cls(nm).definition))
        print(nm, "got", got)
        if tup(got) != tup(flat(tup(e))):
            bad = 1
    return bad
