"""C17 — concurrent and interleaved parsing gives the sequential results.

Partial by nature (real pre-emption and the GIL's atomicity are runtime facts); the tie is:
(a) controlled schedules: ParseCache.__getitem__/__setitem__ are wrapped at run time (no source
    hook) so that every cache operation is a yield point of a token-passing scheduler; k threads
    run requests over the SAME grammar objects under random schedules (and cache limit 1 to force
    concurrent evictions); every result must equal the sequential result and the model's;
(b) a free-running stress run with a tiny switch interval;
(c) generator interleavings: several `lparse` generators advanced alternately and abandoned at every
    prefix; later requests must still give the sequential results."""
from __future__ import annotations

import random
import sys
import threading
import time

import common_check as cc
import engine_corr as ec
import gen as G
import lib
from checks import c08

GEN = {"flags": 0.1, "excl": 0.1, "recursion": 0.35}


class TokenScheduler:
    """Only the thread holding the token runs; at a yield point the token goes to a random live thread."""

    def __init__(self, rng, nthreads):
        self.rng = rng
        self.cond = threading.Condition()
        self.live = set(range(nthreads))
        self.token = None
        self.switches = 0
        self.tls = threading.local()

    def start(self):
        with self.cond:
            self.token = self.rng.choice(sorted(self.live))
            self.cond.notify_all()

    def enter(self, tid):
        self.tls.tid = tid
        with self.cond:
            while self.token != tid:
                self.cond.wait()

    def yield_point(self):
        tid = getattr(self.tls, "tid", None)
        if tid is None:
            return
        with self.cond:
            nxt = self.rng.choice(sorted(self.live))
            if nxt != tid:
                self.switches += 1
            self.token = nxt
            self.cond.notify_all()
            while self.token != tid:
                self.cond.wait()

    def leave(self):
        tid = self.tls.tid
        with self.cond:
            self.live.discard(tid)
            self.token = self.rng.choice(sorted(self.live)) if self.live else None
            self.cond.notify_all()
        self.tls.tid = None


def controlled_run(P, rules, reqs, rng, limit):
    """Runs reqs (one per thread) under a random token schedule; returns results list, switches."""
    sched = TokenScheduler(rng, len(reqs))
    og, os_ = P.ParseCache.__getitem__, P.ParseCache.__setitem__

    def getitem(self, key):
        sched.yield_point()
        return og(self, key)

    def setitem(self, key, value):
        sched.yield_point()
        return os_(self, key, value)

    for r_ in c08.repetitions(P, rules):
        r_.lparse_cache.max_size = limit
    results = [None] * len(reqs)

    def worker(tid):
        sched.enter(tid)
        try:
            results[tid] = c08.request(P, rules[0], *reqs[tid])
        except BaseException as e:  # noqa
            results[tid] = "exc:" + type(e).__name__
        finally:
            sched.leave()

    P.ParseCache.__getitem__, P.ParseCache.__setitem__ = getitem, setitem
    try:
        ths = [threading.Thread(target=worker, args=(t,)) for t in range(len(reqs))]
        for t in ths:
            t.start()
        sched.start()
        for t in ths:
            t.join(60)
        hung = any(t.is_alive() for t in ths)
    finally:
        P.ParseCache.__getitem__, P.ParseCache.__setitem__ = og, os_
    return results, sched.switches, hung


def sequential(P, gr, reqs, limit=None):
    """every request alone, from cleared caches; with `limit` the caches are limited as in the controlled run (a limit of
    one entry can make the real code exponentially slower on a recursive grammar: used as a pre-check of the work)"""
    cls, rules = G.build(P, gr)
    if limit is not None:
        for r_ in c08.repetitions(P, rules):
            r_.lparse_cache.max_size = limit
    out = {}
    for q in set(reqs):
        P.ParseCache.clear_caches()
        out[q] = c08.request(P, rules[0], *q)
    return out


def sequential_parse(P, gr, reqs):
    cls, rules = G.build(P, gr)
    out = {}
    for q in set(reqs):
        P.ParseCache.clear_caches()
        out[q] = lib.py_parse(P, rules[0], q[1], q[2])
    return out


def generator_case(P, gr, reqs, budget, order_seed, seq, seq_parse):
    """several `lparse` listings of one grammar advanced alternately (order from order_seed), each abandoned after budget[t]
    matches; then the same requests again - while the abandoned listings are still suspended, and after they were
    dropped.  Returns ([(kind, message)], number of requests evaluated)."""
    rng = random.Random(order_seed)
    probs = []
    n_ev = 0
    cls, rules = G.build(P, gr)
    gens = []
    for q in reqs:
        try:
            gens.append(rules[0].lparse(q[1], q[2]))
        except Exception:  # noqa
            gens.append(iter(()))
    collected = [[] for _ in reqs]
    alive = list(range(len(reqs)))
    while alive:
        t = rng.choice(alive)
        if len(collected[t]) >= budget[t]:
            alive.remove(t)   # abandoned part-way
            continue
        try:
            collected[t].append(lib.match_dump(P, next(gens[t])))
        except StopIteration:
            alive.remove(t)
        except (P.ParseError, P.GrammarError) as e:
            alive.remove(t)
            # a listing may only end in the exception its sequential run ends in
            want_cls = "gerr" if isinstance(e, P.GrammarError) else "fail"
            if seq[reqs[t]].split(" ", 1)[0] != want_cls:
                probs.append(("generators-exc", "interleaved listing %s(%r) raised %s after %d matches while other listings were suspended; sequential %r"
                              % (reqs[t][0], reqs[t][1], type(e).__name__, len(collected[t]), seq[reqs[t]][:100])))
    for phase_name in ("while earlier listings are suspended", "after interleaved/abandoned generators"):
        for q in reqs:
            got = c08.request(P, rules[0], *q)
            n_ev += 1
            if got != seq[q]:
                probs.append(("generators", "%s: %s(%r) got %r, sequential %r" % (phase_name, q[0], q[1], got[:100], seq[q][:100])))
            want2 = seq_parse.get(q)
            if want2 is not None:
                got2 = lib.py_parse(P, rules[0], q[1], q[2])
                n_ev += 1
                if got2 != want2:
                    probs.append(("generators", "%s: parse(%r) got %r, sequential %r" % (phase_name, q[1], got2[:100], want2[:100])))
        gens = None     # the suspended listings are dropped (closed) here
    # the prefix each generator did produce must be a prefix of the sequential listing
    for q, col in zip(reqs, collected):
        full = seq[q]
        if col and full.startswith("ok"):
            want = [x.strip() for x in full.split("|")[1:]]
            gotp = [x[2:].strip() for x in col]
            if gotp != want[: len(gotp)]:
                probs.append(("generators-prefix", "interleaved generator yielded %r, sequential listing starts %r" % (gotp[:2], want[:2])))
    return probs, n_ev


def run(ctx):
    P = lib.import_repo()
    cc.proof_part(ctx)
    rng = random.Random(ctx.seed)
    gg = G.GrammarGen(rng, **GEN)
    found = False
    rep = 0
    evals = 0
    switches_total = 0
    import sys
    settings0 = (sys.getrecursionlimit(), sys.getswitchinterval(), P.ParseCache.max_cache_size)
    # a request that changes a PROCESS-WIDE setting while it runs changes what concurrent requests do (a deep request of another
    # thread runs out of stack when the setting is put back): a single request of every kind must leave them as it found them
    _g0 = [("r0", ("rep", 0, None, ("alt", [("lit", "a", False), ("cat", [("lit", "(", False), ("ref", 0), ("lit", ")", False)])], False)), None)]
    _c0, _r0 = G.build(P, _g0)
    # ... and while it runs: a leaf parser of our own looks at the settings from INSIDE a request on a long input
    _seen = []

    class _Spy:
        def lparse(self, source, start):
            _seen.append((sys.getrecursionlimit(), sys.getswitchinterval(), P.ParseCache.max_cache_size))
            raise P.ParseError(self, start)
            yield  # noqa - a generator, as every parser's lparse

    _cs, _rs = G.build(P, [("r0", ("rep", 0, None, ("lit", "a", False)), None)])
    _rs[0].definition = P.Concatenation(P.Repetition(P.Repeat(0, None), P.Literal("a")), P.Option(_Spy()))
    _rl = sys.getrecursionlimit()
    sys.setrecursionlimit(1000)          # the interpreter's default, as in an application (the harness itself runs with a higher one)
    settings0 = (sys.getrecursionlimit(), sys.getswitchinterval(), P.ParseCache.max_cache_size)
    try:
        for _kind in ("parse", "parse_all", "lparse"):
            c08.request(P, _rs[0], _kind, "a" * 300, 0)
        _after = (sys.getrecursionlimit(), sys.getswitchinterval(), P.ParseCache.max_cache_size)
    finally:
        sys.setrecursionlimit(_rl)
    if _after != settings0:
        _seen.append(_after)
    if any(x != settings0 for x in _seen) and rep < 2:
        found = True
        rep += 1
        _bad = [x for x in _seen if x != settings0][0]
        ctx.report("process-wide settings differ INSIDE a parse request on a 300-character input: %r, outside %r (a concurrent request of another thread sees - and loses - them)" % (_bad, settings0),
                   {"kind": "process-settings", "grammar": "r0 = *\"a\" [spy]", "request": ["parse", "a*300", 0], "before": list(map(str, settings0)), "after": list(map(str, _bad))},
                   key="settings:inside")
    settings0 = (sys.getrecursionlimit(), sys.getswitchinterval(), P.ParseCache.max_cache_size)
    for _kind, _src in (("parse", "a((a))a"), ("parse_all", "a(a)"), ("lparse", "((a))"), ("parse", "(" * 60 + ")" * 60)):
        c08.request(P, _r0[0], _kind, _src, 0)
        now = (sys.getrecursionlimit(), sys.getswitchinterval(), P.ParseCache.max_cache_size)
        if now != settings0 and rep < 2:
            found = True
            rep += 1
            ctx.report("a %s request changed process-wide settings (recursion limit, switch interval, default cache limit): %r -> %r" % (_kind, settings0, now),
                       {"kind": "process-settings", "grammar": _g0, "request": [_kind, _src, 0], "before": list(map(str, settings0)), "after": list(map(str, now))},
                       key="settings:" + _kind)
            sys.setrecursionlimit(settings0[0])
    blocks = []
    exps = []
    samples = []
    n_sched = ctx.budget(1500, 20000)
    t0 = time.time()
    phase = {}
    slow_skipped = [0]
    for k in range(n_sched):
        gr = gg.grammar(depth=3)
        strings = G.strings_for(rng, gr, 3, maxlen=8)
        nthreads = rng.choice([2, 2, 3, 4])
        reqs = []
        for _ in range(nthreads):
            s = rng.choice(strings)
            reqs.append((rng.choice(["lparse", "parse", "parse_all"]), s, rng.randint(0, min(2, len(s)))))
        if rng.random() < 0.5:
            reqs[1] = reqs[0]  # identical concurrent requests: the half-filled-entry scenario
        # a grammar on which the real code needs more than a few CPU seconds for these short inputs is a matter for C12
        # (work bound, known finding F14): skipped and counted here
        seq = ec.with_budget(ec.CASE_BUDGET_S, lambda: sequential(P, gr, reqs), None)
        if seq is None:
            slow_skipped[0] += 1
            continue
        cls, rules = G.build(P, gr)
        limit = rng.choice([None, 1, 1, 2])
        if limit is not None and ec.with_budget(ec.CASE_BUDGET_S, lambda: sequential(P, gr, reqs, limit), None) is None:
            slow_skipped[0] += 1      # fast with unlimited caches, very slow with evictions: work bound again (C12 / F14)
            continue
        results, sw, hung = controlled_run(P, rules, reqs, rng, limit)
        switches_total += sw
        lines = G.grammar_wire(gr)
        exp = []
        for q, got in zip(reqs, results):
            evals += 1
            if (got != seq[q] or hung) and rep < 3:
                found = True
                rep += 1
                ctx.report("concurrent result differs from sequential: %s(%r,%d) got %r, sequential %r (threads=%d, limit=%s, schedule seed=%d/%d)"
                           % (q[0], q[1], q[2], str(got)[:100], seq[q][:100], nthreads, limit, ctx.seed, k),
                           {"kind": "schedule", "grammar": gr, "requests": reqs, "limit": limit, "results": results, "sequential": [seq[x] for x in reqs],
                            "index": k}, key="schedule:" + lib.digest([gr, reqs, limit]))
            lines.append(c08.qline(*q))
            exp.append((q, got))
        blocks.append(lines)
        exps.append((gr, exp))
        if len(samples) < 2:
            samples.append({"grammar": repr(gr), "requests": reqs, "limit": limit, "switches": sw})
    phase['schedules_s'] = round(time.time() - t0, 1)
    t0 = time.time()
    # (b) stress
    old = sys.getswitchinterval()
    sys.setswitchinterval(1e-6)
    stress_evals = 0
    try:
        for k in range(ctx.budget(25, 400)):
            gr = gg.grammar(depth=3)
            strings = G.strings_for(rng, gr, 4, maxlen=10)
            reqs = [(rng.choice(["lparse", "parse"]), rng.choice(strings), 0) for _ in range(16)]
            seq = ec.with_budget(ec.CASE_BUDGET_S, lambda: sequential(P, gr, reqs), None)
            if seq is None or ec.with_budget(ec.CASE_BUDGET_S, lambda: sequential(P, gr, reqs, 1), None) is None:
                slow_skipped[0] += 1
                continue
            cls, rules = G.build(P, gr)
            for r_ in c08.repetitions(P, rules):
                r_.lparse_cache.max_size = rng.choice([None, 1, 2])
            results = [None] * len(reqs)
            barrier = threading.Barrier(len(reqs))

            def w(t):
                barrier.wait()
                try:
                    for _ in range(3):
                        results[t] = c08.request(P, rules[0], *reqs[t])
                except BaseException as e:  # noqa
                    results[t] = "exc:" + type(e).__name__
            ths = [threading.Thread(target=w, args=(t,)) for t in range(len(reqs))]
            for t in ths:
                t.start()
            for t in ths:
                t.join(120)
            for q, got in zip(reqs, results):
                stress_evals += 1
                if got != seq[q] and rep < 5:
                    found = True
                    rep += 1
                    ctx.report("stress run: %s(%r) got %r, sequential %r" % (q[0], q[1], str(got)[:100], seq[q][:100]),
                               {"kind": "stress", "grammar": gr, "requests": reqs, "results": results}, key="stress:" + lib.digest([gr, reqs]))
    finally:
        sys.setswitchinterval(old)
    phase['stress_s'] = round(time.time() - t0, 1)
    t0 = time.time()
    # (c) generator interleavings / abandonment
    gen_evals = 0
    for k in range(ctx.budget(600, 6000)):
        gr = gg.grammar(depth=3)
        strings = G.strings_for(rng, gr, 3, maxlen=8)
        reqs = [("lparse", rng.choice(strings), 0) for _ in range(3)]
        # a grammar on which the real code needs more than a few CPU seconds for these short inputs is a matter for C12
        # (work bound, known finding F14): skipped and counted here
        seq = ec.with_budget(ec.CASE_BUDGET_S, lambda: sequential(P, gr, reqs), None)
        if seq is None:
            slow_skipped[0] += 1
            continue
        seq_parse = ec.with_budget(ec.CASE_BUDGET_S, lambda: sequential_parse(P, gr, reqs), None) or {}
        budget = [rng.randint(0, 4) for _ in reqs]  # abandon after this many items
        order_seed = rng.randrange(1 << 30)
        probs, n_ev = generator_case(P, gr, reqs, budget, order_seed, seq, seq_parse)
        gen_evals += n_ev
        for kind, msg in probs:
            if rep < 7:
                found = True
                rep += 1
                ctx.report(msg, {"kind": kind, "grammar": gr, "requests": reqs, "abandon_after": budget, "order_seed": order_seed},
                           key=kind + ":" + lib.digest([gr, reqs, budget, order_seed]))
    phase['generators_s'] = round(time.time() - t0, 1)
    t0 = time.time()
    outs = lib.run_driver_parallel(blocks)
    phase['model_s'] = round(time.time() - t0, 1)
    dis = 0
    csamples = []
    for (gr, exp), out in zip(exps, outs):
        for (q, got), ln in zip(exp, out[1:]):
            if got != ln:
                dis += 1
                if len(csamples) < 5:
                    csamples.append({"grammar": gr, "request": q, "implementation": got, "model": ln})
    ctx.corr_samples = csamples
    ctx.coverage.update({
        "phase_seconds": phase, "slow_grammars_skipped": slow_skipped[0],
        "evaluations": evals + stress_evals + gen_evals,
        "distinct_nontrivial": switches_total,
        "rule": "(a) %d random token-passing schedules of 2-4 threads over shared grammar objects, a switch possible before every cache lookup/store, half with identical "
                "concurrent requests, cache limits None/1/2; (b) 16-thread free-running stress with switch interval 1us; (c) three generators advanced in random "
                "interleavings and abandoned after 0-4 items, then the requests repeated; distinct_nontrivial = number of thread switches actually taken at cache operations" % n_sched,
        "samples": samples, "schedules": n_sched, "stress_requests": stress_evals, "generator_requests": gen_evals,
        "disagreements_model_vs_impl": dis,
    })
    ctx.assumptions.append("CPython's GIL makes each OrderedDict operation atomic; pre-emption inside a cache operation is not modelled")
    cc.conclude(ctx, dis, found)


def replay(rp):
    P = lib.import_repo()
    gr = [tuple(r) for r in rp["grammar"]]
    reqs = [tuple(q) for q in rp["requests"]]
    if rp["kind"].startswith("generators"):
        probs, _n = generator_case(P, gr, reqs, rp["abandon_after"], rp.get("order_seed", 0), sequential(P, gr, reqs), sequential_parse(P, gr, reqs))
        for kind, msg in probs:
            print(msg)
        return 1 if probs else 0
    if rp["kind"] != "schedule":
        print(rp.get("what"))
        return 1
    seq = sequential(P, gr, reqs)
    bad = 0
    for seed in range(200):
        cls, rules = G.build(P, gr)
        results, sw, hung = controlled_run(P, rules, reqs, random.Random(seed), rp["limit"])
        if hung or any(r != seq[q] for q, r in zip(reqs, results)):
            print("schedule seed", seed, "results", results, "sequential", [seq[q] for q in reqs])
            bad = 1
            break
    return bad
