"""C16 — a size-limited parse cache respects its limit and evicts least-recently-used.

Tie: random and exhaustive operation sequences (lookup, store, delete, clear_caches,
ParseCache.invalidate) on the real ParseCache vs the Lean model (Abnf/Cache.lean) through the
driver; the observable state (list(cache), len, hits, misses, result of the operation) is compared
after EVERY step; limits None, 1, 2, 3; a second live cache checks that clear reaches every cache.
The theorems (Theorems/C16.lean) say what the model guarantees for every sequence and limit."""
from __future__ import annotations

import itertools
import random

import common_check as cc
import lib


def run_seq_py(P, limit, ops):
    """Executes ops on a fresh real ParseCache; returns list of observation strings."""
    # constructions that FAIL (a negative limit): the exception objects are kept, and with them - through the traceback - the
    # half-constructed cache objects.  They are no caches; clearing must still reach every real one.
    zombies = []
    for bad in (-1, -7):
        try:
            P.ParseCache(bad)
        except Exception as e:  # noqa
            zombies.append(e)
    c = P.ParseCache(limit)
    c2 = P.ParseCache(2)
    c2[("z", 9)] = 99
    obs = []
    copies = []
    for op in ops:
        kind = op[0]
        try:
            if kind == "copy":
                # a cache that came into being by copying / unpickling is a live cache like any other
                import copy
                import pickle
                cx = copy.deepcopy(c) if op[1] == 0 else copy.copy(c) if op[1] == 1 else pickle.loads(pickle.dumps(c))
                if op[1] != 1:
                    # (a shallow copy shares its entry table with the original: it is only watched, never used)
                    cx[("copy", len(copies))] = 1
                    try:
                        cx[("s", 0)]
                    except KeyError:
                        pass
                copies.append(cx)
                obs.append("copied")
                continue
            if kind == "get":
                out = "some %d" % c[("s", op[1])]
            elif kind == "set":
                c[("s", op[1])] = op[2]
                out = "done"
            elif kind == "del":
                del c[("s", op[1])]
                out = "done"
            elif kind == "clear":
                P.ParseCache.clear_caches()
                out = "done"
            elif kind == "bump":
                P.ParseCache.invalidate()
                out = "done"
            else:
                raise ValueError(op)
        except KeyError:
            out = "keyerror"
        except Exception as e:  # noqa
            out = "exc:" + type(e).__name__
        keys = [k[1] for k in list(c)]
        n = len(c)
        st = f"{out} |" + "".join(f" {k}" for k in keys) + f" | {c.hits} {c.misses}"
        if n != len(keys):
            st += f" LEN={n}"
        if kind == "clear" and (len(c2) != 0 or c2.hits != 0 or c2.misses != 0):
            st += " OTHER-CACHE-NOT-CLEARED"
        if kind == "clear" and any(len(cx) != 0 or cx.hits != 0 or cx.misses != 0 for cx in copies):
            st += " COPIED-CACHE-NOT-CLEARED"
        obs.append(st)
    for e in zombies:
        e.__traceback__ = None     # lets go of the half-constructed objects
    return obs


def seq_lines(limit, ops):
    lines = ["xreset", "cache new %s" % ("-" if limit is None else limit)]
    for op in ops:
        if op[0] == "get":
            lines.append(f"cache 0 get {op[1]}")
        elif op[0] == "set":
            lines.append(f"cache 0 set {op[1]} {op[2]}")
        elif op[0] == "del":
            lines.append(f"cache 0 del {op[1]}")
        elif op[0] == "clear":
            lines.append("cache clear")
            lines.append("cache 0 show")
        elif op[0] == "bump":
            lines.append("cache bump")
            lines.append("cache 0 show")
        elif op[0] == "copy":
            lines.append("cache copy 0")
    return lines


def run_parse_py(P, limit, ops):
    """The cache as the PARSERS use it: a real Repetition (1*"a") built under ParseCache.max_cache_size = limit is asked
    to parse "a"*(k+1) at offset 0 - one lookup and, after a miss, one store under key k; the cache is observed after
    every request."""
    P.ParseCache.max_cache_size = limit
    try:
        rep = P.Repetition(P.Repeat(1, None), P.Literal("a"))
    finally:
        P.ParseCache.max_cache_size = None
    c = rep.lparse_cache
    obs = []
    for op in ops:
        if op[0] == "req":
            h0 = c.hits
            try:
                got = [m.start for m in rep.lparse("a" * (op[1] + 1), 0)]
                out = ("hit" if c.hits > h0 else "miss") if got == list(range(op[1] + 1, 0, -1)) else "WRONG-RESULT %r" % (got,)
            except Exception as e:  # noqa
                out = "exc:" + type(e).__name__
        elif op[0] == "clear":
            try:
                P.ParseCache.clear_caches()
                out = "done"
            except Exception as e:  # noqa
                out = "exc:" + type(e).__name__
        else:
            P.ParseCache.invalidate()
            out = "done"
        keys = [len(k[0]) - 1 for k in list(c)]
        obs.append(f"{out} |" + "".join(f" {k}" for k in keys) + f" | {c.hits} {c.misses}")
    return obs


def parse_lines(limit, ops):
    lines = ["xreset", "cache new %s" % ("-" if limit is None else limit)]
    for op in ops:
        if op[0] == "req":
            lines.append(f"cache 0 req {op[1]} 1")
        elif op[0] == "clear":
            lines += ["cache clear", "cache 0 show"]
        else:
            lines += ["cache bump", "cache 0 show"]
    return lines


def model_obs(ops, out):
    """Aligns the driver output with the operation list (clear/bump print 2 lines)."""
    res = []
    pos = 2
    for op in ops:
        if op[0] in ("clear", "bump"):
            res.append("done " + out[pos + 1][len("state "):])
            pos += 2
        elif op[0] == "copy":
            res.append("copied")
            pos += 1
        else:
            res.append(out[pos])
            pos += 1
    return res


def alphabet(nkeys):
    ops = []
    for k in range(nkeys):
        ops += [("get", k), ("set", k, None), ("del", k)]
    ops += [("clear",), ("bump",)]
    return ops


def concretise(seq):
    out = []
    v = 100
    for op in seq:
        if op[0] == "set":
            v += 1
            out.append(("set", op[1], v))
        else:
            out.append(op)
    return out


def run(ctx):
    P = lib.import_repo()
    cc.proof_part(ctx)
    rng = random.Random(ctx.seed)
    cases = []
    depth = ctx.budget(4, 6)
    alph = alphabet(3)
    for limit in (None, 1, 2, 3):
        for seq in itertools.product(alph, repeat=depth):
            cases.append((limit, concretise(seq)))
    exhaustive_n = len(cases)
    alph4 = alphabet(4)
    for _ in range(ctx.budget(3000, 60000)):
        limit = rng.choice([None, 1, 2, 3, 4, 0])
        n = rng.randint(5, 14)
        seq = []
        for _ in range(n):
            # store-after-miss pattern dominates, as in Repetition.lparse
            if rng.random() < 0.5:
                k = rng.randrange(4)
                seq.append(("get", k))
                if rng.random() < 0.8:
                    seq.append(("set", k, None))
            elif rng.random() < 0.08:
                seq.append(("copy", rng.randrange(3)))
            else:
                seq.append(rng.choice(alph4))
        cases.append((limit, concretise(seq)))
    n_direct = len(cases)
    # the cache as the parsers drive it (whatever entry point of ParseCache Repetition.lparse uses)
    for _ in range(ctx.budget(1500, 20000)):
        limit = rng.choice([None, 1, 2, 3, 4])
        seq = []
        for _ in range(rng.randint(5, 16)):
            u = rng.random()
            seq.append(("req", rng.randrange(5)) if u < 0.86 else ("clear",) if u < 0.93 else ("bump",))
        cases.append((limit, seq))
    # real code
    gen0 = P.ParseCache.generation
    py = [run_seq_py(P, limit, ops) if k < n_direct else run_parse_py(P, limit, ops) for k, (limit, ops) in enumerate(cases)]
    blocks = [seq_lines(limit, ops) if k < n_direct else parse_lines(limit, ops) for k, (limit, ops) in enumerate(cases)]
    # run the model in parallel chunks
    outs = lib.run_driver_parallel(blocks)
    found = False
    rep = 0
    dis = 0
    steps = 0
    evictions = 0
    samples = []
    for (limit, ops), pobs, out in zip(cases, py, outs):
        mobs = model_obs(ops, out)
        steps += len(ops)
        for j, (a, b) in enumerate(zip(pobs, mobs)):
            if a != b:
                dis += 1
                if rep < 3:
                    rep += 1
                    found = True
                    ctx.report("ParseCache(limit=%s) differs from the LRU model after step %d of %s: implementation %r, model %r"
                               % (limit, j + 1, ops[: j + 1], a, b),
                               {"kind": "cache", "limit": limit, "ops": ops[: j + 1], "implementation": pobs[: j + 1], "model": mobs[: j + 1]},
                               key="cache:" + lib.digest([limit, ops[: j + 1]]))
                break
        if limit and any(o[0] == "set" for o in ops) and len({o[1] for o in ops if o[0] == "set"}) > limit:
            evictions += 1
    samples = [{"limit": cases[k][0], "ops": cases[k][1], "observations": py[k]} for k in (exhaustive_n // 2, exhaustive_n + 1, len(cases) - 1)]
    ctx.corr_samples = []
    ctx.coverage.update({
        "evaluations": steps,
        "distinct_nontrivial": evictions,
        "rule": "all operation sequences of depth %d over 3 keys (get/set/del per key, clear, invalidate) for limits None,1,2,3 (exhaustive), plus random "
                "sequences of 5-20 steps over 4 keys and limits None,0,1,2,3,4 dominated by lookup-then-store (with caches copied / deep-copied / "
                "unpickled along the way: clear must reach them), plus request sequences through a real Repetition built under max_cache_size "
                "(the cache as the parsers drive it); state compared after every step; "
                "non-trivial = sequences that store more distinct keys than the limit (an eviction decision is exercised)" % depth,
        "samples": samples, "sequences": len(cases), "exhaustive_sequences": exhaustive_n, "exhaustive": False,
        "sequences_through_a_real_repetition": len(cases) - n_direct,
        "disagreements_model_vs_impl": dis,
    })
    cc.conclude(ctx, 0, found)


def replay(rp):
    P = lib.import_repo()
    ops = [tuple(o) for o in rp["ops"]]
    if any(o[0] == "req" for o in ops):
        pobs = run_parse_py(P, rp["limit"], ops)
        out = lib.run_driver(parse_lines(rp["limit"], ops))
    else:
        pobs = run_seq_py(P, rp["limit"], ops)
        out = lib.run_driver(seq_lines(rp["limit"], ops))
    mobs = model_obs(ops, out)
    print("implementation:", pobs, "\nmodel:         ", mobs)
    return 0 if pobs == mobs else 1
