"""C14 — importing one bundled grammar never changes another.

Subprocess matrix: the observable configuration (first-match flags) and parse results of every rule
of module M, imported alone, must equal those observed when other modules are imported before
or after it."""
from __future__ import annotations

import json
import os
import random
import subprocess
from concurrent.futures import ThreadPoolExecutor

import common_check as cc
import lib


def worker(target, pre, post, seed, nsent):
    a = [lib.PY, os.path.join(lib.VERIF, "harness", "workers", "w_c14.py"), target, ",".join(pre) or "-", ",".join(post) or "-",
         str(seed), str(nsent)]
    p = subprocess.run(a, env=lib.child_env(), capture_output=True, text=True, timeout=3000)
    if p.returncode != 0:
        raise RuntimeError(f"worker {target} pre={pre} post={post} failed: {p.stderr[-1500:]}")
    return json.loads(p.stdout)


def diff(a, b):
    out = []
    for name in a:
        if name not in b:
            out.append((name, "missing"))
            continue
        if a[name]["flag"] != b[name]["flag"]:
            out.append((name, f"first_match_alternation {a[name]['flag']} -> {b[name]['flag']}"))
        elif a[name]["digest"] != b[name]["digest"]:
            for (s, r0, e0), (_, r1, e1) in zip(a[name]["results"], b[name]["results"]):
                if r0 != r1 and name == "__process__":
                    out.append((name, f"process-wide setting {s} {r0} -> {r1} (decides e.g. which inputs end in RecursionError for every grammar)"))
                    break
                if r0 != r1:
                    out.append((name, f"parse({s!r}) {r0[:80]!r} -> {r1[:80]!r}"))
                    break
                if e0 != e1:
                    out.append((name, f"lparse({s!r}) ends {e0!r} -> {e1!r}"))
                    break
    return out


def ownership(P):
    """Hypothesis of the frame theorem (C14.flag_write_frame) on the real object graph with ALL modules imported: the
    top-level Alternation object of a rule is reached (structurally, not through rule references) from no rule of another class."""
    import bundled
    for m in bundled.module_names():
        bundled.load(m)
    reach = {}  # id(alternation) -> set of (class name, rule name) whose definition structurally contains it

    def walk(p, who, seen):
        if id(p) in seen or isinstance(p, P.Rule):
            return
        seen.add(id(p))
        if isinstance(p, P.Alternation):
            reach.setdefault(id(p), set()).add(who)
            for q in p.parsers:
                walk(q, who, seen)
        elif isinstance(p, P.Concatenation):
            for q in p.parsers:
                walk(q, who, seen)
        elif isinstance(p, P.Option):
            walk(p.parser, who, seen)
        elif isinstance(p, P.Repetition):
            walk(p.element, who, seen)

    rules = list(P.Rule._obj_map.items())
    for (cls, _), r in rules:
        d = getattr(r, "definition", None)
        if d is not None:
            walk(d, (cls.__module__ + "." + cls.__name__, r.name), set())
    bad = []
    tops = 0
    for (cls, _), r in rules:
        d = getattr(r, "definition", None)
        if isinstance(d, P.Alternation):
            tops += 1
            owners = {w[0] for w in reach.get(id(d), ())}
            if len(owners) > 1:
                bad.append((cls.__module__ + "." + cls.__name__, r.name, sorted(reach[id(d)])[:6]))
    return tops, bad


def run(ctx):
    P = lib.import_repo()
    import bundled
    cc.proof_part(ctx)
    mods = bundled.module_names()
    nsent = ctx.budget(4, 12)
    rng = random.Random(ctx.seed)
    jobs = []
    for m in mods:
        others = [x for x in mods if x != m]
        jobs.append((m, [], []))
        jobs.append((m, others, []))
        jobs.append((m, [], others))
        # another module imported WHILE m is being imported (see the worker): one partner in the quick tier, four in the thorough
        for k in rng.sample(others, ctx.budget(1, 4)):
            jobs.append((m, ["@" + k], []))
        if not ctx.quick:
            for k in others:
                jobs.append((m, [k], []))
                jobs.append((m, [], [k]))
            for _ in range(2):
                o = list(others)
                rng.shuffle(o)
                cut = rng.randrange(len(o))
                jobs.append((m, o[:cut], o[cut:]))
    with ThreadPoolExecutor(16) as ex:
        results = list(ex.map(lambda j: worker(j[0], j[1], j[2], ctx.seed, nsent), jobs))
    alone = {j[0]: r for j, r in zip(jobs, results) if not j[1] and not j[2]}
    found = False
    rep = 0
    tops, notowned = ownership(P)
    for cname, rname, who in notowned[:3]:
        found = True
        rep += 1
        ctx.report("the top-level Alternation object of %s rule %r is shared with other grammar classes: %s (a first-match flag set through one changes the others)"
                   % (cname, rname, who), {"kind": "ownership", "class": cname, "rule": rname, "reached_from": [list(w) for w in who]},
                   key="ownership:%s:%s" % (cname, rname))
    evals = 0
    rules = 0
    for j, r in zip(jobs, results):
        m, pre, post = j
        if not pre and not post:
            rules += len(r) - 1
            continue
        evals += len(r) * nsent
        d = diff(alone[m], r)
        if d and rep < 3:
            culprit = None
            # bisect to a single other module
            for k in (pre + post):
                r1 = worker(m, [k] if k in pre else [], [k] if k in post else [], ctx.seed, nsent)
                if diff(alone[m], r1):
                    culprit = k
                    break
            found = True
            rep += 1
            ctx.report("importing %s changes %s: %s" % (culprit or (pre + post), m, ["%s: %s" % x for x in d[:4]]),
                       {"kind": "import", "module": m, "pre": pre, "post": post, "culprit": culprit, "differences": d[:20]},
                       key="import:%s:%s" % (m, culprit))
    ctx.coverage.update({
        "evaluations": evals,
        "distinct_nontrivial": rules,
        "rule": "for every bundled module M: a process importing M alone vs processes importing all other modules before M / after M "
                "(thorough: also every single other module before/after, and random full orders); per rule: first_match_alternation and parse() of "
                "derived + mutated sentences, plus process-wide interpreter / library settings (recursion limit, switch interval, ParseCache.max_cache_size, ...); distinct_nontrivial = number of bundled rules observed",
        "samples": [{"target": j[0], "pre": j[1][:3], "post": j[2][:3]} for j in jobs[:4]],
        "processes": len(jobs), "modules": len(mods), "top_level_alternations_checked_for_ownership": tops, "not_owned": len(notowned),
    })
    ctx.assumptions.append("CPython's import machinery is trusted; subprocess matrices sample import sets/orders (quick: all-before / all-after; thorough: every ordered pair)")
    cc.conclude(ctx, 0, found)


def replay(rp):
    a = worker(rp["module"], [], [], 1, 6)
    k = rp.get("culprit")
    pre = [k] if k and k in rp["pre"] else ([] if k else rp["pre"])
    post = [k] if k and k in rp["post"] else ([] if k else rp["post"])
    b = worker(rp["module"], pre, post, 1, 6)
    d = diff(a, b)
    print(d[:10])
    return 1 if d else 0
