"""Behavioural correspondence between the real engine and the Lean model on generated grammars.

One case = (grammar, rule 0, source, offset).  The real code runs in-process, the model through
the compiled driver; outcomes are canonical strings (lib.py) compared under a relation chosen
by the caller:
   'ends'  : same outcome class and same *set* of end offsets               (C01, C11, C12)
   'full'  : exactly the same ordered list of matches with trees             (C03, C07)
   'parse' : Rule.parse and Rule.parse_all agree exactly                     (C02)
"""
from __future__ import annotations

import random
import sys
from collections import Counter

import gen as G
import lib


def offsets_for(rng, s, all_offsets):
    if all_offsets or len(s) <= 4:
        return list(range(len(s) + 1))
    return sorted({0, len(s), rng.randint(0, len(s))})


def outcome_class(o: str) -> str:
    return o.split(" ", 1)[0]


def agree(mode, py, ln):
    if mode == "ends":
        return lib.ends_of(py) == lib.ends_of(ln)
    return py == ln


def case_lines(mode, s, i):
    c = lib.cps(s)
    sp = (" " + c) if c else ""
    if mode == "ends":
        return [f"ends 0 {i}{sp}"]
    if mode == "full":
        return [f"lparse 0 {i}{sp}"]
    if mode == "parse":
        out = [f"parse 0 {i}{sp}"]
        if i == 0:
            out.append(f"parseall 0{sp}")
        return out
    raise ValueError(mode)


def py_outcomes(P, mode, rule, s, i):
    if mode == "ends":
        return [lib.py_lparse(P, rule, s, i, full=False)]
    if mode == "full":
        return [lib.py_lparse(P, rule, s, i, full=True)]
    out = [lib.py_parse(P, rule, s, i)]
    if i == 0:
        out.append(lib.py_parse_all(P, rule, s))
    return out


def gen_cases(seed, n_grammars, n_strings, gen_kwargs=None, all_offsets=True, maxlen=10, depth=3):
    """Deterministic in `seed` (independent of the hash seed): [(grammar, [(s, i), ...]), ...]"""
    rng = random.Random(seed)
    gg = G.GrammarGen(rng, **(gen_kwargs or {}))
    out = []
    for gi in range(n_grammars):
        if gi % 6 == 3:
            # the word-repetition family (frontier / termination logic of repetitions)
            gr, strings = G.word_repetition(rng)
            strings = strings[:max(n_strings, 12)]
        else:
            gr = gg.grammar(depth=depth)
            strings = G.strings_for(rng, gr, n_strings, maxlen=maxlen)
        seen = set()
        cases = []
        for s in strings:
            if s in seen:
                continue
            seen.add(s)
            for i in offsets_for(rng, s, all_offsets):
                cases.append((s, i))
        out.append((gr, cases))
    return out


CASE_BUDGET_S = 5.0   # CPU seconds for one request on a <= 10 character input


class CaseBudgetExceeded(BaseException):
    pass


def _on_vtalrm(signum, frame):
    raise CaseBudgetExceeded()


def with_budget(seconds, fn, default):
    """run fn() under a CPU-time budget (SIGVTALRM); a real implementation that needs longer than this for a
    10-character input over a 4-rule grammar does not 'terminate within a polynomial work bound'"""
    import signal
    old = signal.signal(signal.SIGVTALRM, _on_vtalrm)
    signal.setitimer(signal.ITIMER_VIRTUAL, seconds)
    try:
        return fn()
    except CaseBudgetExceeded:
        return default
    finally:
        signal.setitimer(signal.ITIMER_VIRTUAL, 0)
        signal.signal(signal.SIGVTALRM, old)


class ForeignAbort(BaseException):
    """raised from a trace function inside the library: an exception that is not ParseError (KeyboardInterrupt, a timeout
    handler, RecursionError ...) unwinding a request half-way"""


class ForeignError(Exception):
    """the same, but an `Exception` (like RecursionError, TimeoutError, MemoryError): clean-up written as `except Exception`
    sees this one and does not see the other"""


def abort_at_call(P, fn, n, exc_cls=None):
    """runs fn() but raises ForeignAbort at the n-th function call made inside abnf/parser.py; True when fn was cut short"""
    import sys
    count = [0]
    fname = P.__file__
    exc_cls = exc_cls or ForeignAbort

    def tracer(frame, event, arg):
        if event == "call" and frame.f_code.co_filename == fname:
            count[0] += 1
            if count[0] == n:
                raise exc_cls()
        return None

    old = sys.gettrace()
    oldhook = sys.unraisablehook
    # an abort that lands in the finalisation of a generator is swallowed by the interpreter ("Exception ignored in"): quiet
    sys.unraisablehook = lambda *a: None
    sys.settrace(tracer)
    try:
        fn()
        return False
    except (ForeignAbort, ForeignError):
        return True
    finally:
        sys.settrace(old)
        sys.unraisablehook = oldhook


def starved_of_stack(fn, headroom):
    """runs fn() with the interpreter's recursion limit lowered to `headroom` frames above the current depth (restored
    afterwards): a request that needs more stack ends in a genuine RecursionError half-way"""
    import sys
    depth = 0
    f = sys._getframe()
    while f is not None:
        depth += 1
        f = f.f_back
    old = sys.getrecursionlimit()
    try:
        sys.setrecursionlimit(depth + max(3, headroom))
        return fn()
    except RecursionError:
        return None
    finally:
        sys.setrecursionlimit(old)


def disturb_kind(s, i):
    """What happens to the rule object right BEFORE the measured request (a pure function of the case, so that a replay does
    the same): nothing (60%), a listing of the same request abandoned after its first match, the same kept SUSPENDED while
    the measured request runs, an attempt of the same request cut short at the n-th library call by a BaseException / by
    an Exception, or an attempt that runs out of interpreter stack (a genuine RecursionError: the recursion limit is lowered to
    a few dozen frames above the caller for that attempt and restored afterwards).  None of this may alter the measured request (C08: independent of earlier requests; C17: an abandoned
    request leaves nothing behind) - state left in rule objects by a fault or a dropped generator shows up as a wrong answer."""
    import zlib
    d = zlib.crc32(repr((s, i)).encode())
    kind = {0: "abandon", 1: "suspend", 2: "abort-base", 3: "abort-exc", 4: "recursion"}.get(d % 10, "none")
    return [kind, [2, 3, 5, 8, 13, 21, 34, 55][(d // 10) % 8]]


def disturb(P, mode, rule, s, i, kind):
    """performs the disturbance; returns an object to keep alive until the measured request is done (the suspended listing)"""
    k, n = kind
    held = []

    def first():
        g = rule.lparse(s, i)
        try:
            next(g)
        except StopIteration:
            return
        except Exception:  # noqa - whatever the library raises here, the measured request will show it as its outcome
            return
        held.append(g)

    if k in ("abandon", "suspend"):
        with_budget(1.0, first, None)
        if k == "abandon":
            held.clear()      # the only reference goes: the generator is closed on the spot
    elif k in ("abort-base", "abort-exc"):
        with_budget(1.0, lambda: abort_at_call(P, lambda: py_outcomes(P, mode, rule, s, i), n,
                                               ForeignAbort if k == "abort-base" else ForeignError), None)
    elif k == "recursion":
        with_budget(1.0, lambda: starved_of_stack(lambda: py_outcomes(P, mode, rule, s, i), 4 + n % 17), None)
    return held


def py_lparse_disturbed(P, rule, s, i, full=False, kind=None):
    """lib.py_lparse preceded by the disturbance of the case (see disturb_kind); returns (outcome, kind)"""
    kind = kind or disturb_kind(s, i)
    held = disturb(P, "full" if full else "ends", rule, s, i, kind)
    py = lib.py_lparse(P, rule, s, i, full=full)
    undisturb(held)
    return py, kind


def accept_disturbed(P, rule, s, kind=None):
    """parse_all verdict (True / False / 'gerr' / 'exc:...') preceded by the disturbance of the case"""
    kind = kind or disturb_kind(s, 0)
    held = disturb(P, "parse", rule, s, 0, kind)
    try:
        rule.parse_all(s)
        out = True
    except P.ParseError:
        out = False
    except P.GrammarError:
        out = "gerr"
    except Exception as e:  # noqa
        out = "exc:" + type(e).__name__
    undisturb(held)
    return out


def undisturb(held):
    for g in held or []:
        try:
            g.close()
        except Exception:  # noqa
            pass


def decoy_for(grammars, gi):
    """the decoy of grammar gi: its twin (same shape and names, other leaves) or the next generated grammar"""
    if gi % 2 == 0:
        return G.twin(grammars[gi])
    return grammars[(gi + 1) % len(grammars)] if len(grammars) > 1 else None


def eval_py(P, mode, gcases, text_route=False, decoy=True, aborts=None):
    """Runs the real code; returns per grammar (wire grammar lines, [(s, i, query line, outcome)]).
    The model grammar is encoded from the AST, not from the library's objects.  With text_route every
    other grammar is built by rendering it as ABNF text and loading it through the library's reader.
    With decoy, a second grammar class with the SAME class name and rule names but other definitions (the twin of the
    grammar, or the next generated grammar) is built before anything is parsed, and every request is first made to the decoy's rule of the same name: state
    keyed on rule names / sources instead of rule objects (shared memo tables) then shows up as a wrong answer."""
    res = []
    if text_route:
        import pollute
        pollute.restate_core(P)     # language-preserving; see there
    arng = random.Random(aborts) if aborts else None
    for gi, (gr, cases) in enumerate(gcases):
        built = None
        if text_route and gi % 2 == 1:
            try:
                built = G.build_from_text(P, gr)
            except ValueError:
                built = None
        build_exc = None
        if built is None:
            try:
                if gi % 7 == 5:
                    # built under the documented setting "0 = no limit on the cache size" (README)
                    P.ParseCache.max_cache_size = 0
                built = G.build(P, gr)
            except Exception as e:  # noqa - the library refused/crashed while constructing a valid grammar
                build_exc = "exc:" + type(e).__name__ + "-while-building-grammar"
            finally:
                P.ParseCache.max_cache_size = None
        cls, rules = built if built is not None else (None, [None])
        decoy_rule = None
        if decoy and build_exc is None:
            try:
                dgr = decoy_for([g for g, _ in gcases], gi)
                _dcls, drules = G.build(P, dgr, name=cls.__name__) if dgr else (None, [None])
                decoy_rule = drules[0]
            except Exception:  # noqa - a decoy that cannot be built is simply not used
                decoy_rule = None
        glines = G.grammar_wire(gr)
        exp = []
        for s, i in cases:
            if build_exc is None:
                n_out = len(case_lines(mode, s, i))
                if decoy_rule is not None:
                    with_budget(1.0, lambda: py_outcomes(P, mode, decoy_rule, s, i), None)
                held = disturb(P, mode, rules[0], s, i, disturb_kind(s, i))
                rl0 = sys.getrecursionlimit()
                pys = with_budget(CASE_BUDGET_S, lambda: py_outcomes(P, mode, rules[0], s, i), ["slow:no-result-within-budget"] * n_out)
                undisturb(held)
                if sys.getrecursionlimit() != rl0:
                    # a parse request that leaves a process-wide setting changed alters what later (and concurrent) requests do
                    pys = ["exc:recursion-limit-left-at-%d-by-the-request(was-%d)" % (sys.getrecursionlimit(), rl0)] * n_out
                    sys.setrecursionlimit(rl0)
                if pys[0].startswith("slow:"):
                    build_exc = "slow:skipped-after-slow-case"   # do not spend the budget again on this grammar
            else:
                pys = [build_exc] * len(case_lines(mode, s, i))
            for line, py in zip(case_lines(mode, s, i), pys):
                exp.append((s, i, line, py))
        res.append((glines, exp))
    return res


def run(ctx, P, mode, n_grammars, n_strings, seed, gen_kwargs=None, all_offsets=True, maxlen=10,
        depth=3, max_report=5, precomputed=None, text_route=False):
    """Returns (info, disagreements)."""
    gcases = gen_cases(seed, n_grammars, n_strings, gen_kwargs, all_offsets, maxlen, depth)
    grammars = [g for g, _ in gcases]
    stats = Counter()
    opmix = Counter()
    for gr in grammars:
        for k, v in G.grammar_stats(gr).items():
            opmix[k] += v
    evald = precomputed if precomputed is not None else eval_py(P, mode, gcases, text_route=text_route)
    disagreements = []
    slow = []
    nontrivial = set()
    # cases on which the real code did not answer within the CPU budget are a matter for C12 (work bound, known finding
    # F14) and are not comparable here: they are not sent to the model either (it mirrors the algorithm and would need
    # as long)
    evald2 = []
    for gi, (glines, exp) in enumerate(evald):
        keep = []
        for (s, i, line, py) in exp:
            if py.startswith("slow:"):
                stats["slow_cases_skipped"] += 1
                if py == "slow:no-result-within-budget" and len(slow) < 20:
                    slow.append({"grammar": grammars[gi], "source": [ord(c) for c in s], "source_repr": repr(s), "offset": i, "query": line})
            else:
                keep.append((s, i, line, py))
        evald2.append((glines, keep))
    blocks = [glines + [line for _, _, line, _ in exp] for glines, exp in evald2]
    expected = [exp for _, exp in evald2]
    outs = lib.run_driver_parallel(blocks)
    for gi, (exp, out) in enumerate(zip(expected, outs)):
        assert out[0] == "grammar-ok", (out[0], blocks[gi][:3])
        for (s, i, line, py), ln in zip(exp, out[1:]):
            stats["cases"] += 1
            stats["py_" + outcome_class(py)] += 1
            e = lib.ends_of(py) if mode != "parse" else None
            if isinstance(e, frozenset) and len(e) >= 2:
                stats["multi_end"] += 1
                nontrivial.add((gi, s, i))
            elif outcome_class(py) == "fail" and i < len(s):
                nontrivial.add((gi, s, i))
            elif mode == "parse" and outcome_class(py) == "ok":
                nontrivial.add((gi, s, i, line.split()[0]))
            if ln == "oof":
                stats["model_oof"] += 1
            if not agree(mode, py, ln):
                stats["disagree"] += 1
                if len(disagreements) < 200:
                    disagreements.append({
                        "grammar_index": gi, "grammar": grammars[gi], "wire": blocks[gi][: 1 + int(blocks[gi][0].split()[1])],
                        "source": [ord(c) for c in s], "source_repr": repr(s), "offset": i, "query": line,
                        "implementation": py, "model": ln,
                        # the grammar of the same rule names that was asked first (see eval_py); part of the failing history
                        "decoy": decoy_for(grammars, gi),
                        # what was done to the rule object right before the request (see disturb_kind); part of the failing history
                        "disturb": disturb_kind(s, i),
                    })
    stats["distinct_nontrivial"] = len(nontrivial)
    stats["grammars"] = n_grammars
    return {"stats": dict(stats), "operator_mix": dict(opmix), "slow": slow,
            "samples": sample_cases(grammars, expected)}, disagreements


def sample_cases(grammars, expected, k=3):
    out = []
    for gi in range(min(k, len(grammars))):
        exp = expected[gi]
        if not exp:
            continue
        s, i, line, py = exp[len(exp) // 2]
        out.append({"grammar": [(n, repr(a), x) for n, a, x in grammars[gi]], "source": repr(s), "offset": i,
                    "query": line.split()[0], "outcome": py[:200]})
    return out


# ------------------------------------------------------------------------------------------
# replay of a single case on the real code (used by `./check replay`)


def build_with_decoy(P, grammar, decoy):
    """the grammar and (if given) the decoy grammar of the same rule names, both built before anything is parsed"""
    cls, rules = G.build(P, [tuple(r) for r in grammar])
    drule = None
    if decoy:
        try:
            _c, drules = G.build(P, [tuple(r) for r in decoy], name=cls.__name__)
            drule = drules[0]
        except Exception:  # noqa
            drule = None
    return rules, drule


def replay_case(P, grammar, s, i, mode, decoy=None, disturbance=None):
    rules, drule = build_with_decoy(P, grammar, decoy)
    if drule is not None:
        with_budget(1.0, lambda: py_outcomes(P, mode, drule, s, i), None)
    held = disturb(P, mode, rules[0], s, i, disturbance) if disturbance else None
    out = py_outcomes(P, mode, rules[0], s, i)
    undisturb(held)
    return out


def shrink(P, mode, d, max_rounds=30):
    """Greedy shrinking of a disagreement (source first, then grammar sub-expressions)."""
    grammar = [tuple(r) for r in d["grammar"]]
    s = "".join(chr(c) for c in d["source"])
    i = d["offset"]
    qkind = d["query"].split()[0]

    decoy = d.get("decoy")

    def disagrees(gr, s, i):
        try:
            rules, drule = build_with_decoy(P, gr, decoy)
        except Exception:
            return None
        lines = G.grammar_wire(gr)
        cl = case_lines(mode, s, i)
        if drule is not None:
            with_budget(1.0, lambda: py_outcomes(P, mode, drule, s, i), None)
        held = disturb(P, mode, rules[0], s, i, d["disturb"]) if d.get("disturb") else None
        pys = py_outcomes(P, mode, rules[0], s, i)
        undisturb(held)
        out = lib.run_driver(lines + cl)
        for line, py, ln in zip(cl, pys, out[1:]):
            if line.split()[0] == qkind and not agree(mode, py, ln):
                return (py, ln, lines)
        return None

    cur = disagrees(grammar, s, i)
    if cur is None:
        return d
    for _ in range(max_rounds):
        progress = False
        # drop one character
        for k in range(len(s)):
            s2 = s[:k] + s[k + 1:]
            for i2 in {min(i, len(s2)), max(0, i - 1)}:
                r = disagrees(grammar, s2, i2)
                if r:
                    s, i, cur, progress = s2, i2, r, True
                    break
            if progress:
                break
        if progress:
            continue
        # replace rule 0's body by one of its sub-expressions
        for sub in subexprs(grammar[0][1]):
            if sub is grammar[0][1]:
                continue
            g2 = [(grammar[0][0], sub, grammar[0][2])] + grammar[1:]
            r = disagrees(g2, s, i)
            if r:
                grammar, cur, progress = g2, r, True
                break
        if not progress:
            break
    out = dict(d)
    out.update({"grammar": grammar, "source": [ord(c) for c in s], "source_repr": repr(s), "offset": i,
                "implementation": cur[0], "model": cur[1], "wire": cur[2], "shrunk": True})
    return out


def subexprs(e):
    yield e
    k = e[0]
    if k in ("alt", "cat"):
        for x in e[1]:
            yield from subexprs(x)
    elif k == "rep":
        yield from subexprs(e[3])
    elif k == "opt":
        yield from subexprs(e[1])
