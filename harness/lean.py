"""lake build + audit of the Lean side."""
from __future__ import annotations

import fcntl
import os
import re
import subprocess
import time

import lib
from lib import LEAN_DIR, RUN_DIR, ALLOWED_AXIOMS

FORBIDDEN = re.compile(
    r"\b(sorry|admit|native_decide|bv_decide|implemented_by|unsafe)\b|^\s*axiom\s|maxHeartbeats\s+0\b"
)


class Lock:
    def __enter__(self):
        os.makedirs(RUN_DIR, exist_ok=True)
        # one lock per lake project directory (runs against scratch copies of the repository have their own)
        self.f = open(os.path.join(RUN_DIR, "lake-%s.lock" % os.path.basename(LEAN_DIR.rstrip("/"))), "w")
        fcntl.flock(self.f, fcntl.LOCK_EX)
        return self

    def __exit__(self, *a):
        fcntl.flock(self.f, fcntl.LOCK_UN)
        self.f.close()


def lake_build(targets=("Abnf", "driver"), timeout=3000):
    """Returns (ok, log)."""
    with Lock():
        t0 = time.time()
        if LEAN_DIR != lib.LEAN_SRC_DIR:
            if not os.path.isdir(os.path.join(LEAN_DIR, ".lake")):
                # first use: start from the built project (sources and build products), so only what differs is rebuilt
                os.makedirs(LEAN_DIR, exist_ok=True)
                subprocess.run(["rsync", "-a", "--exclude", "AbnfGen/*.lean", lib.LEAN_SRC_DIR + "/", LEAN_DIR + "/"], check=True)
            else:
                subprocess.run(["rsync", "-a", "--delete", "--exclude", "AbnfGen/*.lean", "--exclude", ".lake", lib.LEAN_SRC_DIR + "/", LEAN_DIR + "/"], check=True)
        # regenerate the data files from the repository's current working tree (fresh interpreter)
        import extract
        try:
            extract.in_subprocess()
        except Exception as e:  # noqa - e.g. the package no longer imports: that is for the check to report
            return False, "extraction failed: %s" % e, time.time() - t0
        p = subprocess.run(
            ["lake", "build", *targets], cwd=LEAN_DIR, capture_output=True, text=True, timeout=timeout
        )
        log = p.stdout + p.stderr
        return p.returncode == 0, log, time.time() - t0


def strip_comments(src: str) -> str:
    # remove /- ... -/ (nested) and -- comments
    out = []
    depth = 0
    i = 0
    n = len(src)
    while i < n:
        if src.startswith("/-", i):
            depth += 1
            i += 2
        elif depth and src.startswith("-/", i):
            depth -= 1
            i += 2
        elif depth:
            i += 1
        elif src.startswith("--", i):
            j = src.find("\n", i)
            i = n if j < 0 else j
        else:
            out.append(src[i])
            i += 1
    return "".join(out)


def grep_forbidden():
    """Scan every Lean source of the library for forbidden constructs (outside comments)."""
    hits = []
    for root, _, files in os.walk(LEAN_DIR):
        if ".lake" in root:
            continue
        for fn in files:
            if not fn.endswith(".lean"):
                continue
            path = os.path.join(root, fn)
            src = strip_comments(open(path).read())
            # string literals may mention words; drop them
            src = re.sub(r'"(\\.|[^"\\])*"', '""', src)
            for ln, line in enumerate(src.split("\n"), 1):
                if FORBIDDEN.search(line):
                    hits.append(f"{os.path.relpath(path, LEAN_DIR)}:{ln}: {line.strip()[:120]}")
    return hits


def print_axioms(pid: str, modules, theorems, timeout=1800):
    """Runs `#print axioms` for each theorem. Returns dict name -> list of axioms, or None if the
    theorem does not exist / file fails to elaborate."""
    d = os.path.join(RUN_DIR, pid)
    os.makedirs(d, exist_ok=True)
    path = os.path.join(d, "Audit.lean")
    with open(path, "w") as f:
        for m in modules:
            f.write(f"import {m}\n")
        for t in theorems:
            f.write(f"#print axioms {t}\n")
    with Lock():
        p = subprocess.run(
            ["lake", "env", "lean", path], cwd=LEAN_DIR, capture_output=True, text=True, timeout=timeout
        )
    out = p.stdout + p.stderr
    res = {t: None for t in theorems}
    # messages may wrap over several lines: join, then split on the quote-start
    flat = out.replace("\n", " ")
    for t in theorems:
        m = re.search(r"'" + re.escape(t) + r"' depends on axioms: \[([^\]]*)\]", flat)
        if m:
            res[t] = [a.strip() for a in m.group(1).split(",") if a.strip()]
        elif re.search(r"'" + re.escape(t) + r"' does not depend on any axioms", flat):
            res[t] = []
    return res, out


def leanchecker(modules, timeout=3000):
    """Thorough tier: re-check the compiled .olean files of the property's theorem modules (and everything they
    import from this project) with the toolchain's independent checker."""
    with Lock():
        p = subprocess.run(["lake", "env", "leanchecker", *modules], cwd=LEAN_DIR, capture_output=True, text=True, timeout=timeout)
    return p.returncode == 0, (p.stdout + p.stderr)[-1500:]


def failed_declarations(log):
    """name the theorem / definition around each error location of a lake log"""
    out = []
    for m in re.finditer(r"error: ([\w/\.]+\.lean):(\d+):\d+", log):
        path, ln = os.path.join(LEAN_DIR, m.group(1)), int(m.group(2))
        name = None
        try:
            lines = open(path).read().split("\n")
            for k in range(min(ln, len(lines)) - 1, -1, -1):
                mm = re.match(r"\s*(?:private\s+)?(?:theorem|def|example|lemma|instance)\s+([^\s:(\[{]+)?", lines[k])
                if mm:
                    name = mm.group(1) or "example"
                    break
        except OSError:
            pass
        item = "%s:%d (%s)" % (m.group(1), ln, name)
        if item not in out:
            out.append(item)
    return out[:10]


def audit(ctx, modules, theorems):
    """Build, grep, #print axioms.  Returns (ok, details dict) and fills ctx.coverage."""
    # only this property's theorem modules (with what they import) and the driver: an obligation of ANOTHER property that
    # no longer checks must not raise an alarm here
    targets = tuple(dict.fromkeys(list(modules) + ["driver"]))
    ok, log, dt = lake_build(targets=targets)
    details = {"lake_build_ok": ok, "lake_build_s": round(dt, 1), "lake_targets": list(targets)}
    if not ok:
        details["lake_log_tail"] = log[-3000:]
        details["failed_at"] = failed_declarations(log)
    hits = grep_forbidden()
    details["forbidden_hits"] = hits
    axioms = {}
    if ok:
        axioms, raw = print_axioms(ctx.pid, modules, theorems)
        if any(v is None for v in axioms.values()):
            details["audit_output_tail"] = raw[-2000:]
    bad = [t for t in theorems if axioms.get(t) is None or not set(axioms[t]) <= ALLOWED_AXIOMS]
    details["theorems"] = {t: axioms.get(t) for t in theorems}
    details["not_discharged"] = bad
    good = ok and not hits and not bad
    if good and ctx.tier == "thorough" and modules:
        lc_ok, lc_out = leanchecker(modules)
        details["leanchecker_ok"] = lc_ok
        if not lc_ok:
            details["leanchecker_tail"] = lc_out
            good = False
    return good, details
