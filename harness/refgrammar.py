"""Reference grammars built from ABNF *text* with the independent reader (abnf_ref.py):
core rules (RFC 5234 B.1, transcribed here as ABNF text), bundled modules with their declared
imports and documented first-match choices.  Encodes a closed set of rules in the driver's wire
format."""
from __future__ import annotations

import abnf_ref

CORE_TEXT = """\
ALPHA = %x41-5A / %x61-7A
BIT = "0" / "1"
CHAR = %x01-7F
CR = %x0D
CRLF = CR LF
CTL = %x00-1F / %x7F
DIGIT = %x30-39
DQUOTE = %x22
HEXDIG = DIGIT / "A" / "B" / "C" / "D" / "E" / "F"
HTAB = %x09
LF = %x0A
LWSP = *(WSP / CRLF WSP)
OCTET = %x00-FF
SP = %x20
VCHAR = %x21-7E
WSP = SP / HTAB
"""

# documented first-match choices (property C09: rfc3986.py:59, rfc3987.py:92-94)
FIRST_MATCH = {"rfc3986": ["host"], "rfc3987": "ALL"}


class RefWorld:
    """All reference rules, keyed by (namespace, lower-case name)."""

    def __init__(self):
        self.rules = {}      # key -> {"name": display name, "ast": ast with ('refkey', key), "first": bool}
        self.order = []
        core = abnf_ref.fold_rules(abnf_ref.read_rulelist(abnf_ref.normalise(CORE_TEXT)))
        names = {l.split("=")[0].strip().lower(): l.split("=")[0].strip() for l in CORE_TEXT.splitlines() if l.strip()}
        for lname, ast in core.items():
            self.add(("core", lname), names[lname], self.resolve(ast, "core", set(core)))

    def add(self, key, name, ast, first=False):
        if key not in self.rules:
            self.order.append(key)
        self.rules[key] = {"name": name, "ast": ast, "first": first}

    def resolve(self, ast, ns, own):
        k = ast[0]
        if k == "refname":
            n = ast[1]
            if n in own:
                return ("refkey", (ns, n))
            if ("core", n) in self.rules or ns == "core":
                return ("refkey", ("core", n))
            return ("refkey", (ns, n))  # undefined in this namespace
        if k in ("alt",):
            return ("alt", [self.resolve(x, ns, own) for x in ast[1]], ast[2])
        if k == "cat":
            return ("cat", [self.resolve(x, ns, own) for x in ast[1]])
        if k == "rep":
            return ("rep", ast[1], ast[2], self.resolve(ast[3], ns, own))
        if k == "opt":
            return ("opt", self.resolve(ast[1], ns, own))
        return ast

    def add_module(self, ns, rule_texts_or_text, imports, display_names=None):
        """imports: list of (name in this module, (source namespace, source lower name))"""
        if isinstance(rule_texts_or_text, str):
            parsed = abnf_ref.read_rulelist(abnf_ref.normalise(rule_texts_or_text))
            names = {}
        else:
            parsed = [abnf_ref.read_rule(t) for t in rule_texts_or_text]
        defs = abnf_ref.fold_rules(parsed)
        own = set(defs) | {n.lower() for n, _ in imports}
        disp = display_names or {}
        for lname, ast in defs.items():
            self.add((ns, lname), disp.get(lname, lname), self.resolve(ast, ns, own))
        for name, srckey in imports:
            src = self.rules[srckey]
            self.add((ns, name.lower()), disp.get(name.lower(), name), src["ast"], first=src["first"])
        fm = FIRST_MATCH.get(ns)
        if fm == "ALL":
            for key in list(self.rules):
                if key[0] == ns:
                    self.rules[key]["first"] = True
        elif fm:
            for n in fm:
                self.rules[(ns, n)]["first"] = True

    # ---- wire format
    def wire(self, roots):
        """closure of `roots` (keys); returns (lines, index dict)"""
        idx = {}
        todo = list(roots)
        keys = []
        while todo:
            k = todo.pop(0)
            if k in idx:
                continue
            idx[k] = len(keys)
            keys.append(k)
            if k in self.rules:
                for r in refs_of(self.rules[k]["ast"]):
                    if r not in idx:
                        todo.append(r)
        lines = [f"G {len(keys)}"]
        for k in keys:
            if k not in self.rules:
                lines.append(f"{k[1]} - U")
                continue
            r = self.rules[k]
            lines.append(f"{r['name'].replace(' ', '_')} - " + ast_wire(r["ast"], idx, top_first=r["first"]))
        return lines, idx


def ns_of(module, clsname):
    return f"{module}.{clsname}"


def build_world(info):
    """reference reading of every bundled class: `info` = modinfo.load_all(P)"""
    world = RefWorld()
    FIRST_MATCH.update({"rfc3986.Rule": ["host"], "rfc3987.Rule": "ALL"})
    classes = []
    for module, recs in info.items():
        for rec in recs:
            cls = rec["cls"]
            ns = ns_of(module, cls.__name__)
            imports = [(name, (ns_of(sm, sc), sname.lower())) for name, sm, sname, sc in rec["imports"]]
            world.add_module(ns, rec["grammar"], imports, display_names={})
            classes.append((ns, cls))
    return world, classes


def lean_expr(ast, idx, cid, top_first=False):
    """the reference AST as a Lean `Abnf.Expr` term"""
    k = ast[0]
    if k == "lit":
        return f"(.lit [{', '.join(str(ord(c)) for c in ast[1])}] {'true' if ast[2] else 'false'})"
    if k == "range":
        return f"(.range {ast[1]} {ast[2]})"
    if k == "prose":
        return ".prose"
    if k == "alt":
        first = "true" if (ast[2] or top_first) else "false"
        return f"(.alt [{', '.join(lean_expr(x, idx, cid) for x in ast[1])}] {first})"
    if k == "cat":
        return f"(.cat [{', '.join(lean_expr(x, idx, cid) for x in ast[1])}])"
    if k == "rep":
        cid[0] += 1
        mx = "none" if ast[2] is None else f"(some {ast[2]})"
        return f"(.rep {cid[0]} {ast[1]} {mx} {lean_expr(ast[3], idx, cid)})"
    if k == "opt":
        cid[0] += 1
        return f"(.rep {cid[0]} 0 (some 1) {lean_expr(ast[1], idx, cid)})"
    if k == "refkey":
        return f"(.ref {idx.get(ast[1], 10 ** 6)})"
    raise ValueError(ast)


def refs_of(ast):
    k = ast[0]
    if k == "refkey":
        yield ast[1]
    elif k in ("alt", "cat"):
        for x in ast[1]:
            yield from refs_of(x)
    elif k == "rep":
        yield from refs_of(ast[3])
    elif k == "opt":
        yield from refs_of(ast[1])


_cid = [0]


def ast_wire(ast, idx, top_first=False):
    k = ast[0]
    if k == "lit":
        v = ast[1]
        return f"L {1 if ast[2] else 0} {len(v)}" + "".join(f" {ord(c)}" for c in v)
    if k == "range":
        return f"R {ast[1]} {ast[2]}"
    if k == "prose":
        return "P"
    if k == "alt":
        first = 1 if (ast[2] or top_first) else 0
        return f"A {first} {len(ast[1])} " + " ".join(ast_wire(x, idx) for x in ast[1])
    if k == "cat":
        return f"C {len(ast[1])} " + " ".join(ast_wire(x, idx) for x in ast[1])
    if k == "rep":
        _cid[0] += 1
        return f"N {_cid[0]} {ast[1]} {'-' if ast[2] is None else ast[2]} " + ast_wire(ast[3], idx)
    if k == "opt":
        _cid[0] += 1
        return f"N {_cid[0]} 0 1 " + ast_wire(ast[1], idx)
    if k == "refkey":
        return f"F {idx[ast[1]]}"
    if k == "ref":
        return f"F {ast[1]}"
    raise ValueError(ast)
