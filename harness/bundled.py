"""Helpers for the bundled grammar modules (abnf.grammars.*): listing, sentence generation from
the object graph, mutation."""
from __future__ import annotations

import importlib
import pkgutil


def module_names():
    import abnf.grammars as g
    return sorted(m.name for m in pkgutil.iter_modules(g.__path__) if m.name != "misc")


def load(name):
    return importlib.import_module("abnf.grammars." + name)


class SentenceGen:
    def __init__(self, P, rng, maxlen=80):
        self.P = P
        self.rng = rng
        self.maxlen = maxlen

    def gen(self, p, depth=0):
        P, rng = self.P, self.rng
        if depth > 60:
            raise RecursionError
        if isinstance(p, P.Rule):
            d = getattr(p, "definition", None)
            if d is None:
                return "￿"
            return self.gen(d, depth + 1)
        if isinstance(p, P.Alternation):
            ps = p.parsers
            if depth > 14:
                ps = ps[:1] if rng.random() < 0.6 else ps
            return self.gen(rng.choice(ps), depth + 1)
        if isinstance(p, P.Concatenation):
            return "".join(self.gen(q, depth + 1) for q in p.parsers)
        if isinstance(p, P.Option):
            return self.gen(p.parser, depth)
        if isinstance(p, P.Repetition):
            lo = p.repeat.min
            hi = p.repeat.max if p.repeat.max is not None else lo + (2 if depth < 10 else 0)
            hi = min(hi, lo + 3)
            if depth > 20:
                hi = lo
            return "".join(self.gen(p.element, depth + 1) for _ in range(rng.randint(lo, max(lo, hi))))
        if isinstance(p, P.Literal):
            if isinstance(p.value, tuple):
                a, b = ord(p.value[0]), ord(p.value[1])
                return chr(rng.choice([a, b, rng.randint(a, b)]))
            if p.case_sensitive:
                return p.value
            return "".join(rng.choice([c.lower(), c.upper()]) for c in p.value)
        return "￿"

    def sentence(self, rule):
        for _ in range(6):
            try:
                s = self.gen(rule)
            except RecursionError:
                continue
            if len(s) <= self.maxlen:
                return s
        try:
            return self.gen(rule)[: self.maxlen]
        except RecursionError:
            return ""

    def mutate(self, s):
        rng = self.rng
        if not s:
            return rng.choice(["~", " ", "a"])
        k = rng.randrange(len(s))
        op = rng.randrange(4)
        c = chr(rng.choice([0x20, 0x21, 0x22, 0x7E, 0x7F, 0x80, 0xFF, 0x41, 0x61, 0x30, 0x09, 0x28, 0x29, 0x5C, 0x25, 0x7C, 0x2D,
                            0x212A, 0x10FFFF, 0, 0x3A, 0x2F, 0x2E, 0x3B, 0x2C, 0x3D]))
        if op == 0:
            return s[:k] + s[k + 1:]
        if op == 1:
            return s[:k] + c + s[k:]
        if op == 2:
            return s[:k] + c + s[k + 1:]
        return s[:k] + s[k].swapcase() + s[k + 1:]
