"""Behaviour-preserving changes written by independent sub-agents (refactors, clean-ups): NO check may raise an alarm on them.

  harmless.py import            copy /tmp/mut/H*/out/h<k>.patch (+ meta) to /verif/harmless/<H>-h<k>/
  harmless.py run [ids...]      apply each to a scratch worktree, run the test suite, then EVERY property's quick check
                                (ABNF_REPO=<worktree>); record exit codes in meta.json.  Expected: all 0.
"""
import glob
import json
import os
import shutil
import subprocess
import sys

VERIF = os.path.dirname(os.path.dirname(os.path.abspath(__file__)))
DEST = os.path.join(VERIF, "harmless")
SCRATCH = "/tmp/seedchk"
PY = "/venv/bin/python"
ALL = ["C%02d" % k for k in range(1, 20)]


def sh(cmd, cwd=None, env=None, timeout=3600):
    p = subprocess.run(cmd, shell=True, cwd=cwd, env=env, capture_output=True, text=True, timeout=timeout)
    return p.returncode, p.stdout + p.stderr


def do_import():
    for d in sorted(glob.glob("/tmp/mut/H*/out")):
        hid = d.split("/")[3]
        for patch in sorted(glob.glob(d + "/h*.patch")):
            k = os.path.basename(patch)[:-6]
            mp = os.path.join(d, f"{k}_meta.json")
            dst = os.path.join(DEST, f"{hid}-{k}")
            if os.path.exists(dst) or not os.path.exists(mp):
                continue
            os.makedirs(dst)
            shutil.copy(patch, os.path.join(dst, "patch.diff"))
            try:
                meta = json.load(open(mp))
            except Exception:  # noqa
                meta = {"raw": open(mp).read()}
            json.dump({"author": "independent sub-agent asked for a behaviour-preserving change", "agent_meta": meta}, open(os.path.join(dst, "meta.json"), "w"), indent=1)
            print("imported", dst)


def run_one(hid, checks):
    d = os.path.join(DEST, hid)
    meta = json.load(open(os.path.join(d, "meta.json")))
    wt = os.path.join(SCRATCH, "h-" + hid)
    sh(f"git -C /repo worktree remove --force {wt}")
    os.makedirs(SCRATCH, exist_ok=True)
    rc, out = sh(f"git -C /repo worktree add --detach {wt} HEAD")
    assert rc == 0, out
    res = {}
    try:
        rc, out = sh(f"git apply {d}/patch.diff", cwd=wt)
        meta["applies"] = rc == 0
        if rc == 0:
            env = dict(os.environ, PYTHONPATH=wt + "/src")
            rct, outt = sh(f"{PY} -m pytest -q -p no:cacheprovider -x 2>&1 | tail -3", cwd=wt, env=env, timeout=3000)
            meta["test_suite_with_patch"] = outt.strip().splitlines()[-1] if outt.strip() else ""
            for c in checks:
                env = dict(os.environ, ABNF_REPO=wt, VERIF_RUN_TAG=hid)
                rc, out = sh(f"./check {c} --tier quick", cwd=VERIF, env=env, timeout=3000)
                lines = [ln for ln in out.splitlines() if ln.startswith("VIOLATION") or ln.startswith("# ") or ln.startswith("INTERNAL") or ln.startswith("NOTE")]
                res[c] = {"exit": rc, "lines": lines[:4]}
    finally:
        sh(f"git -C /repo worktree remove --force {wt}")
        shutil.rmtree(os.path.join(VERIF, "run", "lean-alt-" + hid), ignore_errors=True)
        try:
            os.unlink(os.path.join(VERIF, "run", "lake-lean-alt-%s.lock" % hid))
        except OSError:
            pass
    allres = dict(meta.get("checks") or {})
    allres.update(res)
    meta["checks"] = allres
    meta["alarms"] = sorted(c for c, r in allres.items() if r["exit"] != 0)
    json.dump(meta, open(os.path.join(d, "meta.json"), "w"), indent=1)
    return hid, meta["alarms"], meta.get("test_suite_with_patch")


def main():
    cmd = sys.argv[1]
    if cmd == "import":
        do_import()
        return
    ids = [a for a in sys.argv[2:] if not a.startswith("--")] or sorted(os.listdir(DEST))
    only = [a[9:].split(",") for a in sys.argv if a.startswith("--checks=")]
    checks = only[0] if only else ALL
    for hid in ids:
        hid, alarms, suite = run_one(hid, checks)
        print(hid, "ALARMS:" + ",".join(alarms) if alarms else "quiet", "|", suite, flush=True)


if __name__ == "__main__":
    main()
