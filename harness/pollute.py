"""Legal things other grammars may have done in the process before a property is observed: definitions
and `=/` extensions of rules named like core rules / meta-grammar rules in unrelated classes, and a
look-alike grammar class (literally named `Rule`, as every bundled module names its class) whose rules are
spelled like core rules but mean something else, used on the same inputs first."""


_RESTATED = []


def restate_core(P):
    """The default namespace (the base class `Rule`) RESTATES core rules in its own spelling - same language, lower-case names,
    as a grammar that carries its own copy of RFC 5234 appendix B.1 does.  Rule names are case-insensitive: nothing may change,
    in particular not for the ABNF reader, which recognises digits of repeat counts and numeric values by these rules."""
    if _RESTATED:
        return
    _RESTATED.append(True)
    for t in ['digit = %x30-39', 'bit = "0" / "1"', 'hexdig = DIGIT / "A" / "B" / "C" / "D" / "E" / "F"', 'alpha = %x41-5A / %x61-7A',
              'dquote = %x22', 'sp = %x20', 'wsp = SP / HTAB']:
        try:
            P.Rule.create(t)
        except Exception:  # noqa
            pass


def pollute(P):
    other = type("OtherGrammar", (P.Rule,), {})
    # the class LOOKS core names UP (non-creating `get`, as a tool listing a grammar would) before it defines them
    for n in ("ALPHA", "digit", "WSP", "HEXDIG", "bit", "CTL", "VCHAR", "CRLF", "OCTET", "SP", "rulename", "comment", "repeat"):
        other.get(n)
    for t in ['ALPHA =/ "_" / "@" / %xE9', 'DIGIT =/ "x"', 'ALPHA =/ "_"', "WSP =/ %x0C", 'HEXDIG =/ "G"', 'BIT =/ "2"', "CTL =/ %x80", 'DIGIT = "x"', "VCHAR = %x21-7F",
              "CRLF = %x0D.0A / %x0A", 'rulename = "zzz"', 'c-wsp =/ "#"', 'comment = "#" CRLF', 'char-val = "q"', 'repeat =/ "+"',
              "OCTET = %x00-1FF", 'SP = " " / "_"', 'dec-val = "d" 1*HEXDIG']:
        try:
            other.create(t)
        except Exception:  # noqa - e.g. `=/` on a name without definition in this class
            pass
    # the default namespace (the base class `Rule`, as in the README) defining rules named like rules of the ABNF reader
    # that are not core rules: the reader class has its own rules of these names and must keep resolving to them
    for t in ['comment = "zz"', 'option = "zz"', 'group = "zz"', 'repeat = "zz"', 'num-val = "zz"', 'c-nl = "zz"', 'elements = "zz"']:
        try:
            P.Rule.create(t)
        except Exception:  # noqa
            pass
    # a grammar extending core rules while their (documented, language-preserving for one-character alternatives)
    # first-match flag is set: the extension must still land in the extending class only
    flagged = type("FlagGrammar", (P.Rule,), {})
    for name, t in [("ALPHA", 'ALPHA =/ "_"'), ("WSP", "WSP =/ %x0B"), ("BIT", 'BIT =/ "2"'), ("HEXDIG", 'HEXDIG =/ "g"'), ("CTL", "CTL =/ %x80")]:
        core = P.Rule(name)
        try:
            old = core.first_match_alternation
        except Exception:  # noqa - not an alternation
            continue
        try:
            core.first_match_alternation = True
            flagged.create(t)
        except Exception:  # noqa
            pass
        finally:
            core.first_match_alternation = old
    look = type("Rule", (P.Rule,), {})
    for t in ["CRLF = %x0D.0A / %x0A", "WSP = SP / HTAB / %x0B", "LWSP = *(WSP / CRLF WSP)", "fws = *(WSP / CRLF WSP)",
              'rulename = ALPHA *(ALPHA / DIGIT / "-" / "_")', "c-nl = comment / CRLF / %x0A",
              'comment = ";" *(WSP / VCHAR / %x80-FF) CRLF']:
        try:
            look.create(t)
        except Exception:  # noqa - a reader that no longer reads valid ABNF shows in what the checks observe afterwards
            pass
    return other, look


def preparse(P, look, strings):
    """the look-alike grammar parses the same inputs first"""
    for name in ("LWSP", "fws", "CRLF", "WSP", "rulename", "c-nl", "comment"):
        r = look(name)
        for s in strings:
            try:
                list(r.lparse(s, 0))
            except (P.ParseError, P.GrammarError):
                pass
