"""Specification-level oracles written independently of the engine (used only to *search for a
failing input* once a proof obligation or the correspondence is broken; never a verdict on
their own for a passing run).

check_tree: is this parse tree a faithful derivation (property C03)?
"""
from __future__ import annotations


def afold(s: str) -> str:
    return "".join(chr(ord(c) + 32) if "A" <= c <= "Z" else c for c in s)


def check_tree(P, grammar, rule_index, s, i, node, end):
    """Returns None if `node` is a derivation tree of rule `rule_index` over s[i:end] w.r.t. the
    grammar AST (gen.py format), else a reason string."""
    name = grammar[rule_index][0]
    if isinstance(node, P.LiteralNode):
        return "root is a literal node"
    if node.name != name:
        return f"root named {node.name!r}, rule is {name!r}"
    why = value_consistency(P, node)
    if why:
        return why
    why = tiling(P, node, s, i, end)
    if why:
        return why
    memo = {}
    ends = derive_nodes(P, grammar, grammar[rule_index][1], s, i, node.children, 0, memo)
    if (end, len(node.children)) not in ends:
        return f"children of {name!r} are not an expansion of its definition"
    return None


def value_consistency(P, node):
    if isinstance(node, P.LiteralNode):
        if node.length != len(node.value):
            return f"leaf length {node.length} != len(text) {len(node.value)}"
        return None
    v = "".join(c.value for c in node.children)
    if node.value != v:
        return f"node {node.name!r} value {node.value!r} != concatenation of children {v!r}"
    for c in node.children:
        why = value_consistency(P, c)
        if why:
            return why
    return None


def leaves(P, node, out):
    if isinstance(node, P.LiteralNode):
        out.append(node)
    else:
        for c in node.children:
            leaves(P, c, out)
    return out


def tiling(P, node, s, i, end):
    pos = i
    for lf in leaves(P, node, []):
        if lf.offset != pos:
            return f"leaf offset {lf.offset} but previous leaves end at {pos}"
        if s[pos:pos + lf.length] != lf.value or lf.length != len(lf.value):
            return f"leaf text {lf.value!r} != source slice {s[pos:pos + lf.length]!r} at {pos}"
        pos += lf.length
    if pos != end:
        return f"leaves tile up to {pos}, match end is {end}"
    if node.value != s[i:end]:
        return f"tree text {node.value!r} != source[{i}:{end}] {s[i:end]!r}"
    return None


def derive_nodes(P, gr, e, s, i, nodes, k, memo):
    """Set of (end, k') such that nodes[k:k'] is a derivation forest of e over s[i:end]."""
    key = (id(e), i, k)
    if key in memo:
        return memo[key]
    memo[key] = set()  # guards against (impossible in the valid domain) left recursion
    kind = e[0]
    out = set()
    if kind == "lit":
        v = e[1]
        if k < len(nodes) and isinstance(nodes[k], P.LiteralNode):
            n = nodes[k]
            src = s[i:i + len(v)]
            ok = (src == v) if e[2] else (afold(src) == afold(v))
            if i <= len(s) and ok and n.value == src and n.offset == i and n.length == len(src):
                out.add((i + len(src), k + 1))
    elif kind == "range":
        if k < len(nodes) and isinstance(nodes[k], P.LiteralNode) and i < len(s):
            n = nodes[k]
            if e[1] <= ord(s[i]) <= e[2] and n.value == s[i] and n.offset == i and n.length == 1:
                out.add((i + 1, k + 1))
    elif kind == "prose":
        pass
    elif kind == "alt":
        for x in e[1]:
            out |= derive_nodes(P, gr, x, s, i, nodes, k, memo)
    elif kind == "cat":
        states = {(i, k)}
        for x in e[1]:
            nxt = set()
            for (ii, kk) in states:
                nxt |= derive_nodes(P, gr, x, s, ii, nodes, kk, memo)
            states = nxt
            if not states:
                break
        out = states
    elif kind in ("rep", "opt"):
        mn, mx, x = (e[1], e[2], e[3]) if kind == "rep" else (0, 1, e[1])
        frontier = {(i, k)}
        seen = set()
        n = 0
        if mn == 0:
            out |= frontier
        seen |= frontier
        while frontier and (mx is None or n < mx):
            nxt = set()
            for (ii, kk) in frontier:
                nxt |= derive_nodes(P, gr, x, s, ii, nodes, kk, memo)
            n += 1
            if n >= mn:
                new = nxt - out
                out |= nxt
                if not new and n > mn:
                    break
            frontier = nxt
            if n > mn + len(s) + len(nodes) + 2:
                break
    elif kind == "ref" and e[1] < len(gr):
        name, body, _ = gr[e[1]]
        if k < len(nodes) and not isinstance(nodes[k], P.LiteralNode) and nodes[k].name == name:
            ch = nodes[k].children
            sub = derive_nodes(P, gr, body, s, i, ch, 0, {})
            for (end, kk) in sub:
                if kk == len(ch):
                    out.add((end, k + 1))
    memo[key] = out
    return out
