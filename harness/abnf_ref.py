"""Independent reference reader for ABNF (RFC 5234 section 4 + RFC 7405), written without looking at
the library's reader: hand-written recursive descent over the text.  Produces ASTs in gen.py's
format with named references:

  ('alt',[..],False) ('cat',[..]) ('rep',min,max|None,e) ('opt',e) ('lit',str,cs) ('range',lo,hi)
  ('prose',) ('refname', lowercased-name)

Used as the *reading of the text* for C09 (what does the bundled ABNF text denote?) and for
cross-checking C04.  Raises AbnfSyntaxError on text that is not a rulelist.
"""
from __future__ import annotations


class AbnfSyntaxError(Exception):
    pass


ALPHA = set("abcdefghijklmnopqrstuvwxyzABCDEFGHIJKLMNOPQRSTUVWXYZ")
DIGIT = set("0123456789")
HEXDIG = set("0123456789abcdefABCDEF")
BIT = set("01")


class Reader:
    def __init__(self, text: str):
        self.t = text
        self.n = len(text)

    # ---- lexical helpers; every method takes a position and returns a new position (or None)
    def crlf(self, p):
        return p + 2 if self.t.startswith("\r\n", p) else None

    def wsp(self, p):
        return p + 1 if p < self.n and self.t[p] in " \t" else None

    def comment(self, p):
        if p < self.n and self.t[p] == ";":
            q = p + 1
            while q < self.n and (self.t[q] in " \t" or 0x21 <= ord(self.t[q]) <= 0x7E):
                q += 1
            return self.crlf(q)
        return None

    def c_nl(self, p):
        q = self.comment(p)
        return q if q is not None else self.crlf(p)

    def c_wsp(self, p):
        q = self.wsp(p)
        if q is not None:
            return q
        q = self.c_nl(p)
        if q is not None:
            return self.wsp(q)
        return None

    def c_wsps(self, p, minimum=0):
        """all ways to consume *c-wsp are prefixes of the maximal one; return list of positions"""
        out = [p]
        while True:
            q = self.c_wsp(out[-1])
            if q is None:
                break
            out.append(q)
        return out[minimum:]

    def rulename(self, p):
        if p < self.n and self.t[p] in ALPHA:
            q = p + 1
            while q < self.n and (self.t[q] in ALPHA or self.t[q] in DIGIT or self.t[q] == "-"):
                q += 1
            return q
        return None

    # ---- elements: deterministic given the position (ABNF elements are prefix-free up to layout)
    def element(self, p):
        """returns (ast, pos) or None"""
        if p >= self.n:
            return None
        c = self.t[p]
        if c in ALPHA:
            q = self.rulename(p)
            return ("refname", self.t[p:q].lower()), q
        if c == "(":
            r = self.bracketed(p, ")")
            return r
        if c == "[":
            r = self.bracketed(p, "]")
            if r is None:
                return None
            return ("opt", r[0]), r[1]
        if c == '"':
            r = self.quoted(p)
            if r is None:
                return None
            return ("lit", r[0], False), r[1]
        if c == "%":
            if p + 1 < self.n and self.t[p + 1] in "sSiI":
                r = self.quoted(p + 2)
                if r is None:
                    return None
                return ("lit", r[0], self.t[p + 1] in "sS"), r[1]
            return self.num_val(p)
        if c == "<":
            q = p + 1
            while q < self.n and (0x20 <= ord(self.t[q]) <= 0x3D or 0x3F <= ord(self.t[q]) <= 0x7E):
                q += 1
            if q < self.n and self.t[q] == ">":
                inner = self.t[p + 1:q]
                if inner and inner[0] in ALPHA and all(ch in ALPHA or ch in DIGIT or ch == "-" for ch in inner):
                    return ("refname", inner.lower()), q + 1
                return ("prose",), q + 1
            return None
        return None

    def quoted(self, p):
        if p < self.n and self.t[p] == '"':
            q = p + 1
            while q < self.n and (0x20 <= ord(self.t[q]) <= 0x21 or 0x23 <= ord(self.t[q]) <= 0x7E):
                q += 1
            if q < self.n and self.t[q] == '"':
                return self.t[p + 1:q], q + 1
        return None

    def num_val(self, p):
        if p + 1 >= self.n:
            return None
        kind = self.t[p + 1].lower()
        digits, base = {"b": (BIT, 2), "d": (DIGIT, 10), "x": (HEXDIG, 16)}.get(kind, (None, None))
        if digits is None:
            return None

        def number(q):
            r = q
            while r < self.n and self.t[r] in digits:
                r += 1
            if r == q:
                return None
            return int(self.t[q:r], base), r

        r = number(p + 2)
        if r is None:
            return None
        first, q = r
        if q < self.n and self.t[q] == "-":
            r2 = number(q + 1)
            if r2 is not None:
                return ("range", first, r2[0]), r2[1]
            return ("lit", chr(first), True), q
        vals = [first]
        while q < self.n and self.t[q] == ".":
            r2 = number(q + 1)
            if r2 is None:
                break
            vals.append(r2[0])
            q = r2[1]
        return ("lit", "".join(chr(v) for v in vals), True), q

    def bracketed(self, p, close):
        # "(" *c-wsp alternation *c-wsp ")"
        for q in reversed(self.c_wsps(p + 1)):
            for ast, r in self.alternation(q):
                for s in self.c_wsps(r):
                    if s < self.n and self.t[s] == close:
                        return ast, s + 1
        return None

    def repetition(self, p):
        q = p
        while q < self.n and self.t[q] in DIGIT:
            q += 1
        lo_txt = self.t[p:q]
        rep = None
        if q < self.n and self.t[q] == "*":
            r = q + 1
            while r < self.n and self.t[r] in DIGIT:
                r += 1
            hi_txt = self.t[q + 1:r]
            rep = (int(lo_txt) if lo_txt else 0, int(hi_txt) if hi_txt else None)
            q = r
        elif lo_txt:
            rep = (int(lo_txt), int(lo_txt))
        el = self.element(q)
        if el is None:
            return None
        ast, r = el
        if rep is not None:
            ast = ("rep", rep[0], rep[1], ast)
        return ast, r

    def concatenation(self, p):
        """all (ast, pos): repetition *(1*c-wsp repetition) - returns every prefix parse, longest first"""
        first = self.repetition(p)
        if first is None:
            return []
        items = [first[0]]
        ends = [(list(items), first[1])]
        q = first[1]
        while True:
            nxt = None
            for w in reversed(self.c_wsps(q, minimum=1)):
                r = self.repetition(w)
                if r is not None:
                    nxt = r
                    break
            if nxt is None:
                break
            items.append(nxt[0])
            q = nxt[1]
            ends.append((list(items), q))
        out = []
        for its, e in reversed(ends):
            out.append((its[0] if len(its) == 1 else ("cat", its), e))
        return out

    def alternation(self, p):
        """all (ast, pos), longest first: concatenation *(*c-wsp "/" *c-wsp concatenation)"""
        results = []

        def go(alts, q):
            # try to extend with another alternative
            extended = False
            for w in reversed(self.c_wsps(q)):
                if w < self.n and self.t[w] == "/":
                    for w2 in reversed(self.c_wsps(w + 1)):
                        for ast, r in self.concatenation(w2):
                            go(alts + [ast], r)
                            extended = True
                            break
                        if extended:
                            break
                if extended:
                    break
            results.append((alts[0] if len(alts) == 1 else ("alt", alts, False), q))

        for ast, q in self.concatenation(p):
            go([ast], q)
        # longest first, unique positions
        seen = set()
        out = []
        for ast, q in sorted(results, key=lambda x: -x[1]):
            if q not in seen:
                seen.add(q)
                out.append((ast, q))
        return out

    def rule(self, p):
        """rule = rulename defined-as elements c-nl ; returns (name, op, ast, pos) or None"""
        q = self.rulename(p)
        if q is None:
            return None
        name = self.t[p:q].lower()
        for w in reversed(self.c_wsps(q)):
            if self.t.startswith("=/", w):
                op, after = "=/", w + 2
            elif self.t.startswith("=", w):
                op, after = "=", w + 1
            else:
                continue
            for w2 in reversed(self.c_wsps(after)):
                for ast, r in self.alternation(w2):
                    for w3 in reversed(self.c_wsps(r)):
                        e = self.c_nl(w3)
                        if e is not None:
                            return name, op, ast, e
        return None

    def rulelist(self):
        """rulelist = 1*( rule / (*c-wsp c-nl) ); whole text must be consumed"""
        p = 0
        rules = []
        progressed = False
        while p < self.n:
            r = self.rule(p)
            if r is not None:
                rules.append(r[:3])
                p = r[3]
                progressed = True
                continue
            ok = False
            for w in reversed(self.c_wsps(p)):
                e = self.c_nl(w)
                if e is not None:
                    p = e
                    ok = True
                    progressed = True
                    break
            if not ok:
                raise AbnfSyntaxError(f"not a rulelist at offset {p}: {self.t[p:p + 30]!r}")
        if not progressed:
            raise AbnfSyntaxError("empty rulelist")
        return rules


def read_rulelist(text: str):
    """text with CRLF line ends -> list of (name, op, ast)"""
    return Reader(text).rulelist()


def normalise(text: str) -> str:
    return text.rstrip().replace("\r", "").replace("\n", "\r\n") + "\r\n"


def read_rule(text: str):
    src = text if text.endswith("\r\n") else text + "\r\n"
    rd = Reader(src)
    r = rd.rule(0)
    if r is None or r[3] != len(src):
        raise AbnfSyntaxError("not a rule")
    return r[:3]


def fold_rules(rules):
    """apply `=` / `=/` in order: dict name -> ast (first-seen order kept)"""
    out = {}
    for name, op, ast in rules:
        if op == "=" or name not in out:
            out[name] = ast
        else:
            out[name] = ("alt", [out[name], ast], False)
    return out
